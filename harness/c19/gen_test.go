package c19

import (
	"fmt"
	"math/big"
	"reflect"
	"strings"
	"sync"

	"pgregory.net/rapid"

	"verif/harness/internal/gen"
	"verif/harness/internal/inst"
	"verif/harness/internal/ref"
	"verif/harness/internal/reg"
)

// ---- value generators ----------------------------------------------------------------------------
//
// Every operand value is built constructively:
//   * base-field elements: the two-domain boundary lattice of gen.FieldSpec (plus relations to the
//     previously drawn element of the same type);
//   * tower / extension elements: coordinates from that lattice with whole sub-coordinates zeroed
//     (zero, one, base-field embedded, sparse, dense), or derived from the previous element of the
//     same type (equal, negated, inverse, conjugate, ...);
//   * short Weierstrass points: reference-computed multiples [k]G of the validated generator
//     (k in -8..8 and three large multiples), affine (0,0) for infinity, Jacobian representatives
//     (x z^2, y z^3, z) with z from the lattice and (t^2, t^3, 0) for infinity; successive points of
//     one group repeat or negate the previous one with probability 1/2 (equal / opposite / same
//     point under another Z);
//   * twisted Edwards points: reference-computed multiples of the base point, affine / projective /
//     extended representatives with Z from the lattice;
//   * vectors / polynomials: lengths around the assembly thresholds, entries from a small palette
//     of lattice values.

type genFn func(c *drawCtx, label string) (reflect.Value, string)

// world holds the generators of one instance (curve, field, ...).
type world struct {
	mod    *big.Int // modulus around which *big.Int scalars are drawn
	custom map[reflect.Type]genFn
}

// drawCtx is the per-case generation state.
type drawCtx struct {
	t        *rapid.T
	w        *world
	fam      string
	n        int                            // common slice length of the case
	forceLen bool                           // draw exactly n elements (no "other length" variation)
	prevLeaf map[reflect.Type]*big.Int      // last canonical value per leaf type
	prev     map[reflect.Type]reflect.Value // last composite value per type (pointer)
	prevIdx  map[string]int                 // last pool index per group
	prevSl   map[reflect.Type]reflect.Value // last slice per type
}

func newCtx(t *rapid.T, w *world, fam string) *drawCtx {
	return &drawCtx{t: t, w: w, fam: fam, prevLeaf: map[reflect.Type]*big.Int{}, prev: map[reflect.Type]reflect.Value{},
		prevIdx: map[string]int{}, prevSl: map[reflect.Type]reflect.Value{}}
}

var (
	specMu    sync.Mutex
	specCache = map[reflect.Type]gen.FieldSpec{}
)

// leafSpec derives the lattice parameters of a base-field Element type from its package's Modulus().
func leafSpec(t reflect.Type) gen.FieldSpec {
	specMu.Lock()
	defer specMu.Unlock()
	if s, ok := specCache[t]; ok {
		return s
	}
	path := strings.TrimPrefix(t.PkgPath(), modPrefix)
	p := reg.Get(path)
	if p == nil || !p.Has("Modulus") {
		panic("c19: no Modulus() for " + t.String())
	}
	q := p.F("Modulus")[0].(*big.Int)
	s := gen.FieldSpec{Q: new(big.Int).Set(q), NLimbs: int(t.Size()) / 8, LimbBits: 64}
	if t.Size() == 4 {
		s.NLimbs, s.LimbBits = 1, 32
	}
	specCache[t] = s
	return s
}

func setLeaf(ptr reflect.Value, v *big.Int) {
	ptr.MethodByName("SetBigInt").Call([]reflect.Value{reflect.ValueOf(v)})
}

func (c *drawCtx) leafValue(t reflect.Type, label string) (*big.Int, string) {
	s := leafSpec(t)
	if p, ok := c.prevLeaf[t]; ok && rapid.IntRange(0, 2).Draw(c.t, label+"r") == 0 {
		v, cl := s.Related(c.t, p, label)
		c.prevLeaf[t] = v
		return v, "rel:" + cl
	}
	v, cl := s.Elem(c.t, label)
	c.prevLeaf[t] = v
	return v, cl
}

func (c *drawCtx) leaf(t reflect.Type, label string) (reflect.Value, string) {
	v, cl := c.leafValue(t, label)
	p := reflect.New(t)
	setLeaf(p, v)
	return p, cl
}

// fill writes lattice values into every leaf below rv; with sparse, each direct sub-coordinate is
// left zero with probability 1/2 (recursively).
func (c *drawCtx) fill(rv reflect.Value, label string, sparse bool) {
	t := rv.Type()
	if isLeaf(t) {
		v, _ := c.leafValue(t, label)
		setLeaf(rv.Addr(), v)
		return
	}
	n := 0
	sub := func(i int) reflect.Value { return rv.Field(i) }
	if t.Kind() == reflect.Struct {
		n = t.NumField()
	} else {
		n = rv.Len()
		sub = func(i int) reflect.Value { return rv.Index(i) }
	}
	for i := 0; i < n; i++ {
		if sparse && rapid.Bool().Draw(c.t, label+"z") {
			continue
		}
		c.fill(sub(i), fmt.Sprintf("%s.%d", label, i), sparse)
	}
}

func firstLeaf(rv reflect.Value) reflect.Value {
	for !isLeaf(rv.Type()) {
		if rv.Kind() == reflect.Struct {
			rv = rv.Field(0)
		} else {
			rv = rv.Index(0)
		}
	}
	return rv
}

var derive = []string{"Set", "Neg", "Inverse", "Conjugate", "Double", "Square"}

// composite draws a tower / extension element (or any struct of field elements).
func (c *drawCtx) composite(t reflect.Type, label string) (reflect.Value, string) {
	p := reflect.New(t)
	cl := ""
	mode := rapid.IntRange(0, 9).Draw(c.t, label+"mode")
	if prev, ok := c.prev[t]; ok && mode >= 8 {
		op := rapid.SampledFrom(derive).Draw(c.t, label+"rel")
		if m := p.MethodByName(op); m.IsValid() && m.Type().NumIn() == 1 && m.Type().In(0) == prev.Type() {
			m.Call([]reflect.Value{prev})
			c.prev[t] = p
			return p, "rel:" + op
		}
		p.Elem().Set(prev.Elem())
		c.prev[t] = p
		return p, "rel:Set"
	}
	switch mode {
	case 0:
		cl = "zero"
	case 1:
		setLeaf(firstLeaf(p.Elem()).Addr(), big.NewInt(1))
		cl = "one"
	case 2:
		v, _ := c.leafValue(firstLeaf(p.Elem()).Type(), label)
		setLeaf(firstLeaf(p.Elem()).Addr(), v)
		cl = "base_embedded"
	case 3, 4, 5:
		c.fill(p.Elem(), label, true)
		cl = "sparse"
	default:
		c.fill(p.Elem(), label, false)
		cl = "dense"
	}
	c.prev[t] = p
	return p, cl
}

// value draws a pointer to a new value of the algebraic type t.
func (c *drawCtx) value(t reflect.Type, label string) (reflect.Value, string) {
	if g, ok := c.w.custom[t]; ok {
		return g(c, label)
	}
	if isLeaf(t) {
		return c.leaf(t, label)
	}
	return c.composite(t, label)
}

var vecLens = []int{0, 1, 2, 3, 4, 5, 7, 8, 9, 15, 16, 17, 23, 24, 31, 32, 33, 47, 48, 49, 63, 64, 65, 111, 112, 113, 127, 128, 129, 255, 256, 257}
var polyLens = []int{0, 1, 1, 2, 2, 3, 4, 5, 8, 16, 17}

func (c *drawCtx) drawLen() {
	if c.fam == "vector" {
		c.n = rapid.SampledFrom(vecLens).Draw(c.t, "n")
	} else {
		c.n = rapid.SampledFrom(polyLens).Draw(c.t, "n")
	}
}

// slice draws a Vector / Polynomial / MultiLin. Vectors and MultiLins of one case share one length (a
// length mismatch is a documented panic); polynomials differ in length in a quarter of the draws.
func (c *drawCtx) slice(t reflect.Type, label string) (reflect.Value, string) {
	n := c.n
	cl := fmt.Sprintf("len:%d", n)
	if c.fam == "poly" && !c.forceLen && t.Name() != "MultiLin" && rapid.IntRange(0, 3).Draw(c.t, label+"ol") == 0 {
		n = rapid.SampledFrom(polyLens).Draw(c.t, label+"n")
		cl = "len:other"
	}
	s := reflect.MakeSlice(t, n, n)
	if prev, ok := c.prevSl[t]; ok && prev.Len() == n && rapid.IntRange(0, 3).Draw(c.t, label+"eq") == 0 {
		reflect.Copy(s, prev)
		return s, cl + ",rel:equal"
	}
	et := t.Elem()
	k := rapid.IntRange(1, 4).Draw(c.t, label+"pal")
	pal := []reflect.Value{reflect.New(et), reflect.New(et)}
	setLeaf(pal[1], big.NewInt(1))
	for i := 0; i < k; i++ {
		p, _ := c.leaf(et, fmt.Sprintf("%s.p%d", label, i))
		pal = append(pal, p)
	}
	if n > 0 {
		idx := rapid.SliceOfN(rapid.IntRange(0, len(pal)+3), n, n).Draw(c.t, label+"idx")
		for i, j := range idx {
			if j >= len(pal) { // bias towards the lattice entries
				j = 2 + (j-len(pal))%k
			}
			s.Index(i).Set(pal[j].Elem())
		}
	}
	c.prevSl[t] = s
	return s, cl
}

// bigInt draws a scalar from the integer lattice around the group order, both signs; a quarter of the draws are
// much longer than the order.
func (c *drawCtx) bigInt(label string) (*big.Int, string) {
	if rapid.IntRange(0, 3).Draw(c.t, label+"wide") == 0 {
		// scalars much longer than the order (both signs): the "operands are left unchanged" clause also covers them
		// (a pre-reduction written into the caller's integer only shows on over-long scalars); F2 is repaired, and a
		// call that panics on distinct and aliased operands alike is counted, not failed
		v, cl := gen.Int(c.t, c.w.mod, 2*c.w.mod.BitLen()+70, label)
		return v, "wide:" + cl
	}
	v, cl := gen.Int(c.t, c.w.mod, c.w.mod.BitLen(), label)
	if v.BitLen() > c.w.mod.BitLen() {
		v.Rem(v, c.w.mod)
		cl += "(reduced)"
	}
	return v, cl
}

func (c *drawCtx) scalar(t reflect.Type, method string, label string) (reflect.Value, string) {
	v := reflect.New(t).Elem()
	switch {
	case t.Kind() == reflect.Bool:
		v.SetBool(rapid.Bool().Draw(c.t, label))
	case method == "Mul2ExpNegN": // documented: n must be < 33
		v.SetUint(uint64(rapid.IntRange(0, 32).Draw(c.t, label)))
	case t.Kind() >= reflect.Int && t.Kind() <= reflect.Int64:
		x := rapid.SampledFrom([]int64{0, 0, 1, 1, -1, 2, 3, 7, 64, 1 << 30, -1 << 31}).Draw(c.t, label)
		if v.OverflowInt(x) {
			x = 1
		}
		v.SetInt(x)
	default:
		x := rapid.SampledFrom([]uint64{0, 1, 2, 3, 5, 31, 32, 33, 63, 64, 255}).Draw(c.t, label)
		if v.OverflowUint(x) {
			x = 1
		}
		v.SetUint(x)
	}
	return v, fmt.Sprint(v.Interface())
}

// ---- worlds --------------------------------------------------------------------------------------

var (
	worldMu sync.Mutex
	worlds  = map[string]*world{}
)

func worldFor(tg *target) *world {
	worldMu.Lock()
	defer worldMu.Unlock()
	if w, ok := worlds[tg.inst]; ok {
		return w
	}
	w := &world{custom: map[reflect.Type]genFn{}, mod: new(big.Int).Lsh(big.NewInt(1), 255)}
	name := tg.inst[strings.Index(tg.inst, "/")+1:]
	switch tg.fam {
	case "point":
		cv := inst.GetCurve(name)
		w.mod = cv.R
		for _, g := range cv.Groups() {
			addGroup(w, g)
		}
	case "edwards":
		addEdwards(w, inst.GetEdwards(name))
	}
	worlds[tg.inst] = w
	return w
}

// multiples returns k_i and the index of the opposite multiple for the pool -8..8 plus three large scalars.
func poolScalars(r *big.Int) ([]*big.Int, []int) {
	var ks []*big.Int
	for k := int64(-8); k <= 8; k++ {
		ks = append(ks, big.NewInt(k))
	}
	neg := make([]int, len(ks))
	for i := range neg {
		neg[i] = len(ks) - 1 - i
	}
	half := new(big.Int).Rsh(r, 1)
	a := new(big.Int).Lsh(big.NewInt(1), uint(r.BitLen()/2))
	a.Add(a, big.NewInt(12345))
	for _, k := range []*big.Int{half, a} {
		ks = append(ks, k, new(big.Int).Neg(k))
		neg = append(neg, len(ks)-1, len(ks)-2)
	}
	return ks, neg
}

// poolIndex draws a pool index: fresh, or (half of the time when a previous point of the group exists)
// the previous point again or its opposite.
func (c *drawCtx) poolIndex(group string, n int, neg []int, label string) (int, string) {
	if p, ok := c.prevIdx[group]; ok {
		switch rapid.IntRange(0, 3).Draw(c.t, label+"rel") {
		case 0:
			return p, "rel:same_point"
		case 1:
			c.prevIdx[group] = neg[p]
			return neg[p], "rel:opposite"
		case 2:
			if group == "ed" && n%2 == 0 && n > 30 { // Edwards pool with torsion-shifted second half
				q := (p + n/2) % n
				c.prevIdx[group] = q
				return q, "rel:differs_by_order2_point"
			}
		}
	}
	i := rapid.IntRange(0, n-1).Draw(c.t, label+"k")
	c.prevIdx[group] = i
	return i, "fresh"
}

func (c *drawCtx) fieldVec(F ref.Fld, leafT reflect.Type, label string) (ref.V, string) {
	if rapid.IntRange(0, 2).Draw(c.t, label+"z1") == 0 {
		return F.One(), "Z=1"
	}
	s := leafSpec(leafT)
	z := make(ref.V, F.Deg())
	for i := range z {
		if i > 0 && rapid.Bool().Draw(c.t, label+"zs") {
			z[i] = new(big.Int)
			continue
		}
		z[i], _ = s.Elem(c.t, fmt.Sprintf("%s.z%d", label, i))
	}
	if F.IsZero(z) {
		return F.One(), "Z=1"
	}
	return z, "Z=lattice"
}

func addGroup(w *world, g *inst.Group) {
	ks, neg := poolScalars(g.R)
	pool := make([]ref.Pt, len(ks))
	// small multiples by repeated addition, large ones by double-and-add (reference arithmetic only)
	pos := make([]ref.Pt, 9)
	pos[0] = g.E.Infinity()
	for k := 1; k <= 8; k++ {
		pos[k] = g.E.Add(pos[k-1], g.Gen)
	}
	for i, k := range ks {
		switch {
		case k.IsInt64() && k.Int64() >= 0 && k.Int64() <= 8:
			pool[i] = pos[k.Int64()]
		case k.IsInt64() && k.Int64() < 0 && k.Int64() >= -8:
			pool[i] = g.E.Neg(pos[-k.Int64()])
		default:
			pool[i] = g.E.Mul(k, g.Gen)
		}
		if !g.E.OnCurve(pool[i]) {
			panic("c19: pool point off curve")
		}
	}
	affT, jacT := g.AffType(), g.JacType()
	leafT := firstLeaf(reflect.New(affT).Elem()).Type()
	w.custom[affT] = func(c *drawCtx, label string) (reflect.Value, string) {
		i, cl := c.poolIndex(g.Name, len(pool), neg, label)
		return reflect.ValueOf(g.FromRef(pool[i])), fmt.Sprintf("%s,k=%s", cl, kClass(ks[i]))
	}
	w.custom[jacT] = func(c *drawCtx, label string) (reflect.Value, string) {
		i, cl := c.poolIndex(g.Name, len(pool), neg, label)
		z, zc := c.fieldVec(g.E.F, leafT, label)
		return reflect.ValueOf(g.JacFromRef(pool[i], z)), fmt.Sprintf("%s,k=%s,%s", cl, kClass(ks[i]), zc)
	}
}

func kClass(k *big.Int) string {
	switch {
	case k.Sign() == 0:
		return "0(infinity)"
	case k.IsInt64() && k.Int64() >= -8 && k.Int64() <= 8:
		return "small"
	}
	return "large"
}

func addEdwards(w *world, e *inst.Edwards) {
	w.mod = e.Order
	ks, neg := poolScalars(e.Order)
	pool := make([]ref.EPt, len(ks))
	pos := make([]ref.EPt, 9)
	pos[0] = e.E.Zero()
	for k := 1; k <= 8; k++ {
		var ok bool
		pos[k], ok = e.E.Add(pos[k-1], e.Base)
		if !ok {
			panic("c19: exceptional Edwards addition in the pool")
		}
	}
	for i, k := range ks {
		switch {
		case k.IsInt64() && k.Int64() >= 0 && k.Int64() <= 8:
			pool[i] = pos[k.Int64()]
		case k.IsInt64() && k.Int64() < 0 && k.Int64() >= -8:
			pool[i] = e.E.Neg(pos[-k.Int64()])
		default:
			pool[i] = e.E.Mul(k, e.Base)
		}
		if !e.E.OnCurve(pool[i]) {
			panic("c19: Edwards pool point off curve")
		}
	}
	// second half of the pool: the same multiples shifted by the point of order two T = (0,-1), so that
	// pairs differing by a point of even order (the exceptional inputs of the dedicated addition formulas)
	// and points outside the prime-order subgroup occur; -(kB+T) = -kB+T
	two := ref.EPt{X: new(big.Int), Y: new(big.Int).Sub(e.Q, big.NewInt(1))}
	if e.E.OnCurve(two) {
		n0 := len(pool)
		for i := 0; i < n0; i++ {
			q, ok := e.E.Add(pool[i], two)
			if !ok || !e.E.OnCurve(q) {
				panic("c19: Edwards torsion shift failed")
			}
			pool = append(pool, q)
			ks = append(ks, ks[i])
			neg = append(neg, n0+neg[i])
		}
	}
	affT := e.Pkg.Types["PointAffine"]
	leafT := firstLeaf(reflect.New(affT).Elem()).Type()
	F := ref.NewPrimeFld(e.Q)
	z1 := func(c *drawCtx, label string) (*big.Int, string) {
		z, zc := c.fieldVec(F, leafT, label)
		return z[0], zc
	}
	w.custom[affT] = func(c *drawCtx, label string) (reflect.Value, string) {
		i, cl := c.poolIndex("ed", len(pool), neg, label)
		return reflect.ValueOf(e.NewAffine(pool[i])), fmt.Sprintf("%s,k=%s", cl, kClass(ks[i]))
	}
	w.custom[e.Pkg.Types["PointProj"]] = func(c *drawCtx, label string) (reflect.Value, string) {
		i, cl := c.poolIndex("ed", len(pool), neg, label)
		z, zc := z1(c, label)
		return reflect.ValueOf(e.NewProj(pool[i], z)), fmt.Sprintf("%s,k=%s,%s", cl, kClass(ks[i]), zc)
	}
	w.custom[e.Pkg.Types["PointExtended"]] = func(c *drawCtx, label string) (reflect.Value, string) {
		i, cl := c.poolIndex("ed", len(pool), neg, label)
		z, zc := z1(c, label)
		return reflect.ValueOf(e.NewExtended(pool[i], z)), fmt.Sprintf("%s,k=%s,%s", cl, kClass(ks[i]), zc)
	}
}
