package c19

import (
	"fmt"
	"sort"
	"strings"
	"testing"

	"verif/harness/internal/rep"
)

// TestC19_Table prints the generated allow/deny table into the evidence: one note per distinct
// table (types of different instances with the same method set share a note).
func TestC19_Table(t *testing.T) {
	type group struct {
		insts []string
		text  string
	}
	var order []string
	groups := map[string]*group{}
	total, qual, nparts := 0, 0, 0
	for _, tg := range catalogue {
		vs := discover(tg)
		var allow, byName, noPair, other []string
		for _, v := range vs {
			total++
			switch {
			case v.reason == "":
				qual++
				nparts += len(v.m.parts)
				allow = append(allow, fmt.Sprintf("%s[%s]", v.m.name, strings.Join(v.m.shapes, " ")))
			case strings.HasPrefix(v.reason, "name:"):
				byName = append(byName, v.m.name)
			case strings.HasPrefix(v.reason, "no two shareable"):
				noPair = append(noPair, v.m.name)
			default:
				other = append(other, v.m.name+" ("+v.reason+")")
			}
		}
		text := fmt.Sprintf("%d methods, %d qualify. ALLOW: %s. DENY non-arithmetic/other property (by name): %s. DENY nothing to alias (no two pointer/slice positions of one type): %s. DENY other: %s",
			len(vs), len(allow), strings.Join(allow, " "), strings.Join(byName, " "), strings.Join(noPair, " "), strings.Join(other, "; "))
		key := tg.fam + "." + tg.name + "|" + text
		g := groups[key]
		if g == nil {
			g = &group{text: text}
			groups[key] = g
			order = append(order, key)
		}
		g.insts = append(g.insts, tg.inst)
	}
	for _, k := range order {
		g := groups[k]
		name := k[:strings.Index(k, "|")]
		rep.Note("C19_Table", fmt.Sprintf("table %s {%s}: %s", name, strings.Join(g.insts, ","), g.text))
	}
	sort.Strings(skippedTypes)
	rep.Note("C19_Table", "exported struct types of the curve / Edwards packages without arithmetic methods, not examined: "+strings.Join(skippedTypes, " "))
	rep.Note("C19_Table", fmt.Sprintf("totals: %d types, %d exported methods examined, %d qualify, %d (method, partition) pairs; documented aliasing restrictions found by grepping the doc comments for alias/must not/distinct/overlap: none", len(catalogue), total, qual, nparts))
	if len(denyDocumented) > 0 {
		t.Logf("documented restrictions: %v", denyDocumented)
	}
	t.Logf("%d types, %d methods, %d qualify, %d (method, partition) pairs", len(catalogue), total, qual, nparts)
	if qual < 1000 {
		t.Fatalf("method discovery found only %d qualifying methods: the reflection walk is broken", qual)
	}
}
