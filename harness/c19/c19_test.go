// Package c19: receiver and operands may alias in every arithmetic method.
//
// Methods are discovered by reflection (discover_test.go). For each qualifying method, each set
// partition of its shareable positions (receiver, pointer operands, slice operands of the receiver's
// type; grouped by type) with at least one aliased group is executed twice on the same values:
// once on fresh distinct objects (the expectation) and once with the objects of every group
// shared. The aliased run must return the same results, leave the receiver's group holding the
// value the distinct run left in the receiver, and leave every other group unchanged.
package c19

import (
	"bytes"
	"fmt"
	"math/big"
	"os"
	"reflect"
	"regexp"
	"sort"
	"strings"
	"testing"
	"unsafe"

	"pgregory.net/rapid"

	"verif/harness/internal/rep"
)

func TestMain(m *testing.M) { rep.Main(m) }

func selected(name string) bool {
	p := os.Getenv("VERIF_INST")
	if p == "" {
		return true
	}
	ok, _ := regexp.MatchString(p, name)
	return ok
}

// ---- value comparison ----------------------------------------------------------------------------

var limbOnlyCache = map[reflect.Type]bool{}

// limbOnly: the type consists of uint32/uint64 arrays only (no padding, no pointers): raw memory
// comparison is value comparison.
func limbOnly(t reflect.Type) bool {
	if v, ok := limbOnlyCache[t]; ok {
		return v
	}
	r := false
	switch t.Kind() {
	case reflect.Uint64, reflect.Uint32:
		r = true
	case reflect.Array:
		r = limbOnly(t.Elem())
	case reflect.Struct:
		r = t.NumField() > 0 && t != bigIntT
		for i := 0; i < t.NumField(); i++ {
			if !limbOnly(t.Field(i).Type) {
				r = false
			}
		}
	}
	limbOnlyCache[t] = r
	return r
}

func rawBytes(v reflect.Value) []byte {
	if !v.CanAddr() {
		c := reflect.New(v.Type()).Elem()
		c.Set(v)
		v = c
	}
	return unsafe.Slice((*byte)(v.Addr().UnsafePointer()), int(v.Type().Size()))
}

// equalVal compares two values of the same type: raw limbs for field/tower/point values,
// big.Int by value, pointers by pointee, slices element-wise.
func equalVal(a, b reflect.Value) bool {
	if a.IsValid() != b.IsValid() {
		return false
	}
	if !a.IsValid() {
		return true
	}
	t := a.Type()
	if t != b.Type() {
		return false
	}
	if limbOnly(t) {
		return bytes.Equal(rawBytes(a), rawBytes(b))
	}
	switch t.Kind() {
	case reflect.Ptr:
		if a.IsNil() || b.IsNil() {
			return a.IsNil() == b.IsNil()
		}
		if t == bigIntPtrT {
			return a.Interface().(*big.Int).Cmp(b.Interface().(*big.Int)) == 0
		}
		return equalVal(a.Elem(), b.Elem())
	case reflect.Struct:
		if t == bigIntT {
			x, y := a.Interface().(big.Int), b.Interface().(big.Int)
			return x.Cmp(&y) == 0
		}
		for i := 0; i < t.NumField(); i++ {
			if !equalVal(a.Field(i), b.Field(i)) {
				return false
			}
		}
		return true
	case reflect.Slice, reflect.Array:
		if t.Kind() == reflect.Slice && a.IsNil() != b.IsNil() && (a.Len() != 0 || b.Len() != 0) {
			return false
		}
		if a.Len() != b.Len() {
			return false
		}
		for i := 0; i < a.Len(); i++ {
			if !equalVal(a.Index(i), b.Index(i)) {
				return false
			}
		}
		return true
	case reflect.Bool:
		return a.Bool() == b.Bool()
	case reflect.Int, reflect.Int8, reflect.Int16, reflect.Int32, reflect.Int64:
		return a.Int() == b.Int()
	case reflect.Uint, reflect.Uint8, reflect.Uint16, reflect.Uint32, reflect.Uint64:
		return a.Uint() == b.Uint()
	}
	panic("c19: cannot compare " + t.String())
}

// show renders a value for messages and case keys (raw limbs in hex; deterministic).
func show(v reflect.Value) string {
	if !v.IsValid() {
		return "<none>"
	}
	t := v.Type()
	switch {
	case t == bigIntPtrT:
		if v.IsNil() {
			return "nil"
		}
		return v.Interface().(*big.Int).String()
	case t.Kind() == reflect.Ptr:
		if v.IsNil() {
			return "nil"
		}
		return show(v.Elem())
	case limbOnly(t):
		return fmt.Sprintf("%x", rawBytes(v))
	case t.Kind() == reflect.Slice:
		var sb strings.Builder
		fmt.Fprintf(&sb, "[%d]", v.Len())
		for i := 0; i < v.Len(); i++ {
			sb.WriteString(show(v.Index(i)))
			sb.WriteByte(' ')
		}
		return sb.String()
	case t == bigIntT:
		x := v.Interface().(big.Int)
		return x.String()
	}
	return fmt.Sprint(v.Interface())
}

// human renders field/tower/point values as base-field integers where possible (failure messages).
func human(v reflect.Value) string {
	if v.IsValid() && v.Kind() == reflect.Ptr && !v.IsNil() && v.Type() != bigIntPtrT && algebraic(v.Type().Elem()) {
		var out []*big.Int
		flat(v.Elem(), &out)
		return fmt.Sprint(out)
	}
	return show(v)
}

func flat(rv reflect.Value, out *[]*big.Int) {
	if isLeaf(rv.Type()) {
		r := rv.Addr().MethodByName("BigInt").Call([]reflect.Value{reflect.ValueOf(new(big.Int))})
		*out = append(*out, r[0].Interface().(*big.Int))
		return
	}
	switch rv.Kind() {
	case reflect.Struct:
		for i := 0; i < rv.NumField(); i++ {
			flat(rv.Field(i), out)
		}
	case reflect.Array:
		for i := 0; i < rv.Len(); i++ {
			flat(rv.Index(i), out)
		}
	}
}

// fresh returns a new object holding the same value: *T -> new *T, slice -> new backing array,
// *big.Int -> new *big.Int.
func fresh(v reflect.Value) reflect.Value {
	t := v.Type()
	switch {
	case t == bigIntPtrT:
		return reflect.ValueOf(new(big.Int).Set(v.Interface().(*big.Int)))
	case t.Kind() == reflect.Ptr:
		n := reflect.New(t.Elem())
		n.Elem().Set(v.Elem())
		return n
	case t.Kind() == reflect.Slice:
		s := reflect.MakeSlice(t, v.Len(), v.Len())
		reflect.Copy(s, v)
		return s
	}
	return v
}

// ---- one execution -------------------------------------------------------------------------------

type outcome struct {
	panicked string          // "" or the panic text
	rets     []reflect.Value // results
	retIsZ   []bool          // pointer result identical to the receiver pointer
	state    []reflect.Value // final value of every shareable position (copied)
}

// execute runs m on objects built from vals: every position gets its own fresh object, except that
// with alias=true the positions of one group of part share one object. The value of a group is the
// value drawn for its first member in both modes.
func (m *method) execute(vals []reflect.Value, part []int, alias bool, zPrior ...reflect.Value) *outcome {
	np := len(m.pos)
	first := map[int]int{}
	for i, g := range part {
		if g >= 0 {
			if _, ok := first[g]; !ok {
				first[g] = i
			}
		}
	}
	objs := make([]reflect.Value, np)
	shared := map[int]reflect.Value{}
	for i, p := range m.pos {
		if p.kind != kAlias {
			continue
		}
		src := vals[first[part[i]]]
		if i == 0 && len(zPrior) == 1 {
			src = zPrior[0] // receiver starts from another value (receiver-prior independence check)
		}
		if alias {
			if o, ok := shared[part[i]]; ok {
				objs[i] = o
				continue
			}
		}
		objs[i] = fresh(src)
		shared[part[i]] = objs[i]
	}
	args := make([]reflect.Value, np)
	var hdr reflect.Value // pointer to the receiver's slice header
	for i, p := range m.pos {
		switch p.kind {
		case kAlias:
			args[i] = objs[i]
			if i == 0 && m.ptrRecv && m.tg.typ.Kind() == reflect.Slice {
				hdr = reflect.New(m.tg.typ)
				hdr.Elem().Set(objs[0])
				args[0] = hdr
			}
		case kValue, kBigVal:
			args[i] = vals[i].Elem()
		default:
			args[i] = vals[i]
		}
	}
	o := &outcome{}
	func() {
		defer func() {
			if r := recover(); r != nil {
				o.panicked = fmt.Sprint(r)
				if o.panicked == "" {
					o.panicked = "panic"
				}
			}
		}()
		o.rets = m.fn.Call(args)
	}()
	o.retIsZ = make([]bool, len(o.rets))
	for j, r := range o.rets {
		if r.Kind() == reflect.Ptr && !r.IsNil() && args[0].Kind() == reflect.Ptr && r.Type() == args[0].Type() && r.Pointer() == args[0].Pointer() {
			o.retIsZ[j] = true
		}
	}
	o.state = make([]reflect.Value, np)
	for i, p := range m.pos {
		if p.kind != kAlias {
			continue
		}
		if i == 0 && hdr.IsValid() {
			o.state[i] = fresh(hdr.Elem())
			if hdr.Elem().IsNil() {
				o.state[i] = reflect.Zero(m.tg.typ)
			}
			continue
		}
		o.state[i] = fresh(objs[i])
	}
	return o
}

func sameResults(a, b *outcome) (bool, string) {
	if (a.panicked != "") != (b.panicked != "") {
		return false, fmt.Sprintf("panic: %q vs %q", a.panicked, b.panicked)
	}
	if len(a.rets) != len(b.rets) {
		return false, "number of results"
	}
	for j := range a.rets {
		if a.retIsZ[j] != b.retIsZ[j] {
			return false, fmt.Sprintf("result %d: returns the receiver in one run only", j)
		}
		if a.retIsZ[j] {
			continue
		}
		if !equalVal(a.rets[j], b.rets[j]) {
			return false, fmt.Sprintf("result %d: %s vs %s", j, human(a.rets[j]), human(b.rets[j]))
		}
	}
	return true, ""
}

// semEqual: projective point types may be compared up to the representative with their Equal method.
func semEqual(m *method, a, b reflect.Value) bool {
	if a.Kind() != reflect.Ptr || a.IsNil() || b.IsNil() {
		return false
	}
	if m.tg.fam != "point" && m.tg.fam != "edwards" {
		return false
	}
	eq := a.MethodByName("Equal")
	if !eq.IsValid() || eq.Type().NumIn() != 1 || eq.Type().In(0) != b.Type() {
		return false
	}
	return eq.Call([]reflect.Value{b})[0].Bool()
}

// ---- the property --------------------------------------------------------------------------------

func (m *method) testName() string { return "C19_Alias/" + m.tg.inst }

func (m *method) prop(t *rapid.T) {
	w := worldFor(m.tg)
	c := newCtx(t, w, m.tg.fam)
	if m.tg.typ.Kind() == reflect.Slice {
		c.drawLen()
	}
	np := len(m.pos)
	vals := make([]reflect.Value, np)
	vcls := make([]string, np)
	for i, p := range m.pos {
		label := p.nm
		switch {
		case p.kind == kAlias && p.id == bigIntT, p.kind == kBigVal:
			b, cl := c.bigInt(label)
			vals[i], vcls[i] = reflect.ValueOf(b), "int:"+cl
		case p.kind == kAlias && p.id.Kind() == reflect.Slice:
			vals[i], vcls[i] = c.slice(p.id, label)
		case p.kind == kAlias:
			vals[i], vcls[i] = c.value(p.id, label)
		case p.kind == kValue:
			vals[i], vcls[i] = c.value(p.typ, label)
		default:
			vals[i], vcls[i] = c.scalar(p.typ, m.name, label)
		}
	}
	parts := make([]int, len(m.parts))
	for i := range parts {
		parts[i] = i
	}
	if len(parts) > maxParts {
		parts = rapid.SliceOfNDistinct(rapid.IntRange(0, len(m.parts)-1), maxParts, maxParts, rapid.ID[int]).Draw(t, "parts")
		sort.Ints(parts)
	}
	test := m.testName()
	head := m.tg.id() + "." + m.name
	m.priorIndependence(t, c, vals, test, head)
	for _, pi := range parts {
		part, shape := m.parts[pi], m.shapes[pi]
		// canonical case text: values of the group representatives
		var kb strings.Builder
		kb.WriteString(head + " " + shape + " |")
		first := map[int]int{}
		for i, p := range m.pos {
			src := i
			if p.kind == kAlias {
				if f, ok := first[part[i]]; ok {
					src = f
				} else {
					first[part[i]] = i
				}
			}
			kb.WriteString(" " + p.nm + "=")
			if src != i {
				kb.WriteString("@" + m.pos[src].nm)
			} else {
				kb.WriteString(show(vals[i]))
			}
		}
		key := kb.String()
		classes := []string{"family:" + m.tg.fam, "type:" + m.tg.fam + "." + m.tg.name, "method:" + m.name, "partition:" + shape}
		for i, p := range m.pos {
			if p.kind == kAlias && first[part[i]] == i {
				for _, s := range strings.Split(vcls[i], ",") {
					classes = append(classes, "value:"+s)
				}
			}
		}

		d1 := m.execute(vals, part, false)
		d2 := m.execute(vals, part, false)
		if ok, why := sameResults(d1, d2); !ok || !sameStates(m, d1, d2) {
			rep.Note(test, fmt.Sprintf("%s: two runs on distinct copies of the same values disagree (%s): not a deterministic function of its inputs, skipped", head, why))
			rep.Case(test, key, false, append(classes, "skip:nondeterministic")...)
			continue
		}
		al := m.execute(vals, part, true)

		if ok, why := sameResults(d1, al); !ok {
			t.Fatalf("%s with %s: aliased call differs from the call on distinct copies: %s\n%s", head, shape, why, m.describe(vals, part, d1, al))
		}
		if d1.panicked != "" {
			rep.Note(test, fmt.Sprintf("%s panics identically on distinct and aliased operands for some generated inputs (%s); not an aliasing effect", head, trunc(d1.panicked, 80)))
			rep.Case(test, key, true, append(classes, "outcome:panic_in_both_runs")...)
			continue
		}
		// expected final value per group
		groups := map[int][]int{}
		var order []int
		for i, g := range part {
			if g >= 0 {
				if _, ok := groups[g]; !ok {
					order = append(order, g)
				}
				groups[g] = append(groups[g], i)
			}
		}
		skipped := false
		for _, g := range order {
			mem := groups[g]
			init := vals[mem[0]]
			var outs []int
			for _, i := range mem {
				if !equalVal(stateOf(d1.state[i]), stateOf(init)) {
					outs = append(outs, i)
					if i != 0 {
						// the property: "operands other than the receiver are left unchanged". No method of the
						// pinned tree has an output parameter; one that gains one must be listed explicitly.
						t.Fatalf("%s (distinct objects, run for %s): the call modified its operand %s\n%s", head, shape, m.pos[i].nm, m.describe(vals, part, d1, al))
					}
				}
			}
			want := stateOf(init)
			wantWhy := "unchanged operand value"
			if len(outs) >= 1 {
				want = stateOf(d1.state[outs[0]])
				wantWhy = "value left in " + m.pos[outs[0]].nm + " by the call on distinct copies"
				amb := false
				for _, i := range outs[1:] {
					if !equalVal(stateOf(d1.state[i]), want) {
						amb = true
					}
				}
				if amb {
					skipped = true
					continue
				}
			}
			got := stateOf(al.state[mem[0]])
			if !equalVal(got, want) {
				if semEqual(m, al.state[mem[0]], d1.state[outsOr(outs, mem[0])]) {
					classes = append(classes, "outcome:other_representative_same_point")
					rep.Note(test, fmt.Sprintf("%s with %s: aliased result is another projective representative of the same point", head, shape))
					continue
				}
				var names []string
				for _, i := range mem {
					names = append(names, m.pos[i].nm)
				}
				t.Fatalf("%s with %s: after the aliased call {%s} holds %s, expected the %s = %s\n%s", head, shape,
					strings.Join(names, ","), human(al.state[mem[0]]), wantWhy, human(ptrOf(want)), m.describe(vals, part, d1, al))
			}
		}
		if skipped {
			rep.Note(test, fmt.Sprintf("%s with %s: two outputs with different values share one object; nothing to assert", head, shape))
			rep.Case(test, key, true, append(classes, "skip:two_outputs_aliased")...)
			continue
		}
		rep.Case(test, key, true, classes...)
	}
}

// ---- receiver-prior independence ---------------------------------------------------------------
//
// The distinct run above gives the receiver the same prior value as the operand it is aliased with
// (mandatory for accumulate-style methods). That hides one kind of aliasing dependence: an
// implementation that reads the *receiver* where it should read the operand (an "in-place only"
// code path) is right when z is x and wrong on a distinct z, unless z happens to hold x's value.
// Therefore every method that is not an accumulator is also run, on all-distinct objects, from two
// different prior receiver values: unless the receiver is left untouched in both runs (predicates,
// failed Sqrt, Polynomial.Sub on mismatched lengths), results and final receiver must agree.

var accumulateName = regexp.MustCompile(`(Assign|InPlace)$`)

// documented partial writers: the receiver keeps part of its prior value by design
var partialWriter = map[string]string{
	"CyclotomicSquareCompressed": "Karabina compressed square: only g1,g2,g3,g5 are written, g0 and g4 of the receiver are not part of the result",
}

// readsReceiver reports whether the receiver's prior value is a legitimate input of m.
func (m *method) readsReceiver() (bool, string) {
	same := false
	for _, p := range m.pos[1:] {
		if p.kind == kAlias && p.id == m.tg.typ {
			same = true
		}
	}
	switch {
	case !same:
		return true, "no operand of the receiver's type: the receiver is the in/out operand"
	case accumulateName.MatchString(m.name):
		return true, "accumulate-style name"
	case partialWriter[m.name] != "":
		return true, partialWriter[m.name]
	}
	return false, ""
}

func (m *method) priorIndependence(t *rapid.T, c *drawCtx, vals []reflect.Value, test, head string) {
	if reads, _ := m.readsReceiver(); reads {
		return
	}
	// another prior value for the receiver (slices: same length, a length mismatch is a different call)
	var w reflect.Value
	if m.tg.typ.Kind() == reflect.Slice {
		save := c.n
		c.n = vals[0].Len()
		c.forceLen = true
		w, _ = c.slice(m.tg.typ, "w")
		c.n, c.forceLen = save, false
	} else {
		w, _ = c.value(m.tg.typ, "w")
	}
	all := make([]int, len(m.pos))
	g := 0
	for i, p := range m.pos {
		all[i] = -1
		if p.kind == kAlias {
			all[i] = g
			g++
		}
	}
	d0 := m.execute(vals, all, false)
	dw := m.execute(vals, all, false, w)
	key := head + " prior | z=" + show(vals[0]) + " w=" + show(w)
	for i, p := range m.pos[1:] {
		key += " " + p.nm + "=" + show(vals[i+1])
	}
	classes := []string{"check:receiver_prior_independence", "family:" + m.tg.fam}
	if (d0.panicked != "") != (dw.panicked != "") {
		t.Fatalf("%s: whether the call panics depends on the prior value of the receiver (%q vs %q)\n%s", head, d0.panicked, dw.panicked, m.describe(vals, all, d0, dw))
	}
	if d0.panicked != "" {
		rep.Case(test, key, false, append(classes, "outcome:panic_in_both_runs")...)
		return
	}
	if equalVal(stateOf(d0.state[0]), stateOf(vals[0])) && equalVal(stateOf(dw.state[0]), stateOf(w)) {
		rep.Case(test, key, false, append(classes, "outcome:receiver_untouched")...)
		return
	}
	if ok, why := sameResults(d0, dw); !ok {
		t.Fatalf("%s on distinct objects: the results depend on the prior value of the receiver (%s): the operand is read through the receiver, "+
			"so the call is right only when the receiver aliases it (if this method legitimately accumulates into its receiver, list it in partialWriter)\n"+
			"  second prior receiver value w = %s\n%s", head, why, human(w), m.describe(vals, all, d0, dw))
	}
	if !equalVal(stateOf(d0.state[0]), stateOf(dw.state[0])) && !semEqual(m, d0.state[0], dw.state[0]) {
		t.Fatalf("%s on distinct objects: the value left in the receiver depends on the receiver's prior value: the operand is read through the receiver, "+
			"so the call is right only when the receiver aliases it (if this method legitimately accumulates into its receiver, list it in partialWriter)\n"+
			"  second prior receiver value w = %s (shown as the 'aliased' lines below)\n%s", head, human(w), m.describe(vals, all, d0, dw))
	}
	for i := 1; i < len(m.pos); i++ {
		if m.pos[i].kind == kAlias && !equalVal(stateOf(d0.state[i]), stateOf(dw.state[i])) {
			t.Fatalf("%s on distinct objects: operand %s ends differently depending on the prior value of the receiver\n%s", head, m.pos[i].nm, m.describe(vals, all, d0, dw))
		}
	}
	rep.Case(test, key, false, append(classes, "outcome:independent")...)
}

func outsOr(outs []int, d int) int {
	if len(outs) > 0 {
		return outs[0]
	}
	return d
}

func trunc(s string, n int) string {
	if len(s) > n {
		return s[:n] + "…"
	}
	return s
}

// stateOf dereferences struct pointers so that states compare by value.
func stateOf(v reflect.Value) reflect.Value {
	if v.IsValid() && v.Kind() == reflect.Ptr && v.Type() != bigIntPtrT && !v.IsNil() {
		return v.Elem()
	}
	return v
}

func ptrOf(v reflect.Value) reflect.Value {
	if v.IsValid() && v.Kind() == reflect.Struct && v.CanAddr() {
		return v.Addr()
	}
	return v
}

func sameStates(m *method, a, b *outcome) bool {
	for i := range a.state {
		if a.state[i].IsValid() && !equalVal(stateOf(a.state[i]), stateOf(b.state[i])) {
			return false
		}
	}
	return true
}

func (m *method) describe(vals []reflect.Value, part []int, d, a *outcome) string {
	var sb strings.Builder
	first := map[int]int{}
	for i, p := range m.pos {
		src := i
		if p.kind == kAlias {
			if f, ok := first[part[i]]; ok {
				src = f
			} else {
				first[part[i]] = i
			}
		}
		if src != i {
			fmt.Fprintf(&sb, "  %s (%s) = same value as %s\n", p.nm, p.typ, m.pos[src].nm)
		} else {
			fmt.Fprintf(&sb, "  %s (%s) = %s\n", p.nm, p.typ, human(vals[i]))
		}
	}
	for i, p := range m.pos {
		if p.kind == kAlias {
			fmt.Fprintf(&sb, "  after distinct call: %s = %s\n", p.nm, human(d.state[i]))
		}
	}
	for i, p := range m.pos {
		if p.kind == kAlias {
			fmt.Fprintf(&sb, "  after aliased call:  %s = %s\n", p.nm, human(a.state[i]))
		}
	}
	fmt.Fprintf(&sb, "  results distinct: %s | aliased: %s\n", showRets(d), showRets(a))
	return sb.String()
}

func showRets(o *outcome) string {
	if o.panicked != "" {
		return "panic(" + o.panicked + ")"
	}
	var s []string
	for j, r := range o.rets {
		if o.retIsZ[j] {
			s = append(s, "receiver")
		} else {
			s = append(s, human(r))
		}
	}
	return "(" + strings.Join(s, ", ") + ")"
}

// TestC19_Alias runs every qualifying method of every selected type.
func TestC19_Alias(t *testing.T) {
	n := 0
	for _, tg := range catalogue {
		if !selected(tg.inst) {
			continue
		}
		tg := tg
		for _, v := range discover(tg) {
			if v.reason != "" {
				continue
			}
			m := v.m
			n++
			t.Run(tg.id()+"."+m.name, func(t *testing.T) { rapid.Check(t, m.prop) })
		}
	}
	if n == 0 {
		t.Fatalf("no method selected by VERIF_INST=%q", os.Getenv("VERIF_INST"))
	}
}
