package c19

import (
	"reflect"

	p377 "github.com/consensys/gnark-crypto/ecc/bls12-377/fr/polynomial"
	p381 "github.com/consensys/gnark-crypto/ecc/bls12-381/fr/polynomial"
	p315 "github.com/consensys/gnark-crypto/ecc/bls24-315/fr/polynomial"
	p317 "github.com/consensys/gnark-crypto/ecc/bls24-317/fr/polynomial"
	p254 "github.com/consensys/gnark-crypto/ecc/bn254/fr/polynomial"
	p633 "github.com/consensys/gnark-crypto/ecc/bw6-633/fr/polynomial"
	p761 "github.com/consensys/gnark-crypto/ecc/bw6-761/fr/polynomial"
	pgru "github.com/consensys/gnark-crypto/ecc/grumpkin/fr/polynomial"
)

// The reflective registry (internal/reg) lists struct types only; the slice types of the eight
// fr/polynomial packages are taken from direct imports. Order is fixed (no map iteration).
type polyPkg struct {
	curve string
	types []reflect.Type // Polynomial, MultiLin
}

var polyPkgs = []polyPkg{
	{"bn254", []reflect.Type{reflect.TypeOf(p254.Polynomial{}), reflect.TypeOf(p254.MultiLin{})}},
	{"bls12-377", []reflect.Type{reflect.TypeOf(p377.Polynomial{}), reflect.TypeOf(p377.MultiLin{})}},
	{"bls12-381", []reflect.Type{reflect.TypeOf(p381.Polynomial{}), reflect.TypeOf(p381.MultiLin{})}},
	{"bls24-315", []reflect.Type{reflect.TypeOf(p315.Polynomial{}), reflect.TypeOf(p315.MultiLin{})}},
	{"bls24-317", []reflect.Type{reflect.TypeOf(p317.Polynomial{}), reflect.TypeOf(p317.MultiLin{})}},
	{"bw6-633", []reflect.Type{reflect.TypeOf(p633.Polynomial{}), reflect.TypeOf(p633.MultiLin{})}},
	{"bw6-761", []reflect.Type{reflect.TypeOf(p761.Polynomial{}), reflect.TypeOf(p761.MultiLin{})}},
	{"grumpkin", []reflect.Type{reflect.TypeOf(pgru.Polynomial{}), reflect.TypeOf(pgru.MultiLin{})}},
}
