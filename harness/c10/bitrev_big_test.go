package c10

import (
	"fmt"
	"math/bits"
	"testing"

	"github.com/consensys/gnark-crypto/field/goldilocks"
	glfft "github.com/consensys/gnark-crypto/field/goldilocks/fft"
	"github.com/consensys/gnark-crypto/field/koalabear"
	kbfft "github.com/consensys/gnark-crypto/field/koalabear/fft"

	"verif/harness/internal/rep"
)

// TestC10_BitReverseLarge: the amd64 implementation has one specialised cobra routine per size
// 2^21..2^27 (and a generic one above). The small-element fields make these sizes affordable:
// v = (0,1,…,n-1), BitReverse(v)[i] must be rev(i) (rev computed with math/bits, independent of the
// library) and BitReverse∘BitReverse = id. koalabear (4-byte elements): 2^21..2^24 quick, ..2^27 thorough;
// goldilocks (8 bytes): 2^22 and 2^24 quick, 2^21..2^26 thorough.
func TestC10_BitReverseLarge(t *testing.T) {
	if !selected("koalabear") && !selected("goldilocks") {
		t.Skip("not selected")
	}
	kb := []int{21, 22, 23, 24}
	gl := []int{22, 24}
	if rep.Thorough() {
		kb = []int{21, 22, 23, 24, 25, 26, 27}
		gl = []int{21, 22, 23, 24, 25, 26}
	}
	rev := func(i uint64, logn int) uint64 { return bits.Reverse64(i) >> (64 - uint(logn)) }
	if selected("koalabear") {
		for _, logn := range kb {
			n := 1 << uint(logn)
			v := make([]koalabear.Element, n)
			for i := range v {
				v[i].SetUint64(uint64(i))
			}
			kbfft.BitReverse(v)
			var e koalabear.Element
			for i := range v {
				e.SetUint64(rev(uint64(i), logn))
				if v[i] != e {
					t.Fatalf("koalabear: BitReverse, n=2^%d: slot %d holds %s, want %d", logn, i, v[i].String(), rev(uint64(i), logn))
				}
			}
			kbfft.BitReverse(v)
			for i := range v {
				e.SetUint64(uint64(i))
				if v[i] != e {
					t.Fatalf("koalabear: BitReverse is not an involution at n=2^%d (slot %d)", logn, i)
				}
			}
			rep.Count("C10_BitReverseLarge/koalabear", fmt.Sprintf("bitrev_n=2^%d", logn), 2, 1, fmt.Sprintf("koalabear BitReverse n=2^%d, all %d slots", logn, n))
		}
	}
	if selected("goldilocks") {
		for _, logn := range gl {
			n := 1 << uint(logn)
			v := make([]goldilocks.Element, n)
			for i := range v {
				v[i].SetUint64(uint64(i))
			}
			glfft.BitReverse(v)
			var e goldilocks.Element
			for i := range v {
				e.SetUint64(rev(uint64(i), logn))
				if v[i] != e {
					t.Fatalf("goldilocks: BitReverse, n=2^%d: slot %d holds %s, want %d", logn, i, v[i].String(), rev(uint64(i), logn))
				}
			}
			glfft.BitReverse(v)
			for i := range v {
				e.SetUint64(uint64(i))
				if v[i] != e {
					t.Fatalf("goldilocks: BitReverse is not an involution at n=2^%d (slot %d)", logn, i)
				}
			}
			rep.Count("C10_BitReverseLarge/goldilocks", fmt.Sprintf("bitrev_n=2^%d", logn), 2, 1, fmt.Sprintf("goldilocks BitReverse n=2^%d, all %d slots", logn, n))
		}
	}
}
