package c10

import (
	"fmt"
	"math/big"
	"testing"

	"verif/harness/internal/inst"
	"verif/harness/internal/ref"
	"verif/harness/internal/rep"
)

// basisTables holds, as library elements converted from reference values, the closed-form images of all
// basis vectors for one (n, shift-or-nil): fwd[j][i] = (s·ω^i)^j, inv[j][k] = s^-k · n^-1 · ω^(-jk).
type basisTables struct {
	fwd, inv []inst.Vec
}

func buildTables(x inst.FFT, R *ref.DFT, s *big.Int) basisTables {
	n := R.N
	tb := basisTables{fwd: make([]inst.Vec, n), inv: make([]inst.Vec, n)}
	for j := 0; j < n; j++ {
		tb.fwd[j] = x.VecFromBig(R.BasisForward(j, s))
		tb.inv[j] = x.VecFromBig(R.BasisInverse(j, s))
	}
	return tb
}

// TestC10_Matrix: bounded-exhaustive option matrix with ALL basis vectors (by linearity a transform is
// decided by the images of the basis): log n in 0..7 (thorough 0..10) × {DIT,DIF} × {coset off,on} ×
// {precompute on,off} × {default shift, custom shift} × nbTasks in taskList × {FFT, FFTInverse}.
func TestC10_Matrix(t *testing.T) {
	forFFTs(t, func(t *testing.T, x inst.FFT) {
		test := "C10_Matrix/" + x.Name()
		f := x.F()
		maxLog := rep.Scale(7, 10)
		one := x.VecFromBig([]*big.Int{big.NewInt(1)})
		for logn := 0; logn <= maxLog; logn++ {
			n := 1 << uint(logn)
			buf := f.NewVec(n)
			var plain basisTables
			for _, custom := range []bool{false, true} {
				var sh *big.Int
				if custom {
					sh = matrixShift(f)
				}
				var cosetTb basisTables
				for _, pre := range []bool{true, false} {
					cd := newChecked(t, x, logn, pre, sh)
					if plain.fwd == nil {
						plain = buildTables(x, cd.R, nil)
					}
					if cosetTb.fwd == nil {
						cosetTb = buildTables(x, cd.R, cd.shift)
					}
					for _, coset := range []bool{false, true} {
						tb := plain
						if coset {
							tb = cosetTb
						}
						for _, dec := range []inst.Decimation{inst.DIT, inst.DIF} {
							for _, tasks := range taskList {
								for _, inverse := range []bool{false, true} {
									c := cfg{logn: logn, dec: dec, coset: coset, pre: pre, custom: custom, tasks: tasks, inverse: inverse}
									cls := c.classes(x)
									nt := c.nontrivial(x)
									ks := x.Name() + " " + c.String() + " e_"
									o := inst.FFTOpt{Coset: coset, NbTasks: tasks}
									for j := 0; j < n; j++ {
										x.VecZero(buf)
										in := j
										if dec == inst.DIT {
											in = cd.perm[j] // DIT expects its input bit-reversed
										}
										x.VecSet(buf, in, one, 0)
										want := tb.fwd[j]
										if inverse {
											want = tb.inv[j]
											cd.d.FFTInverse(buf, dec, o)
										} else {
											cd.d.FFT(buf, dec, o)
										}
										for i := 0; i < n; i++ {
											at := i
											if dec == inst.DIF {
												at = cd.perm[i] // DIF delivers its output bit-reversed
											}
											if !x.VecEq(buf, at, want, i) {
												t.Fatalf("%s%d: natural-order output index %d (slot %d): got %s want %s",
													ks, j, i, at, buf.At(at).Big(), want.At(i).Big())
											}
										}
										rep.Case(test, fmt.Sprintf("%s%d", ks, j), nt, cls...)
									}
								}
							}
						}
					}
				}
			}
		}
		rep.Exhaustive(test)
		rep.Note(test, fmt.Sprintf("option matrix enumerated completely for log n = 0..%d with all basis vectors; custom shift fixed to one arbitrary element", maxLog))
	})
}
