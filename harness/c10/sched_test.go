package c10

import (
	"fmt"
	"math/big"
	"os"
	"runtime"
	"strconv"
	"testing"

	"verif/harness/internal/inst"
	"verif/harness/internal/ref"
	"verif/harness/internal/rep"
)

// TestC10_Sched: the transform result does not depend on the schedule. For GOMAXPROCS in {1,2,3,8,16} a
// subset of the option matrix (sizes crossing the kernels and the parallel-split thresholds, task counts
// including the default) is run on a dense pseudo-random vector (derived from VERIF_SEED) and compared with
// the reference: completely for n <= 2^10, at sampled indices (Horner) above. The thorough tier also runs this
// test from a -race build.
func TestC10_Sched(t *testing.T) {
	defer runtime.GOMAXPROCS(runtime.GOMAXPROCS(0))
	baseSeed, _ := strconv.ParseUint(os.Getenv("VERIF_SEED"), 10, 64)
	forFFTs(t, func(t *testing.T, x inst.FFT) {
		test := tname("C10_Sched", x)
		f := x.F()
		q := f.Q()
		sizes, procsList, tasksList := []int{5, 6, 8, 9, 10, 11, 12}, []int{1, 2, 3, 8, 16}, append([]int{0}, taskList...)
		if os.Getenv("VERIF_C10_SCHED") == "lite" { // the CPU-path variant jobs: a thinner grid over the same dimensions
			sizes, procsList, tasksList = []int{5, 8, 9, 11}, []int{2, 16}, []int{0, 1, 3, 64}
		}
		for _, logn := range sizes {
			n := 1 << uint(logn)
			seed := sm64(baseSeed*1000003 + uint64(logn))
			in := make([]*big.Int, n)
			w := words(f)
			for i := range in {
				in[i] = seed.elem(q, w)
			}
			// two lattice points inside the dense vector
			in[0] = new(big.Int).Sub(q, big.NewInt(1))
			in[n-1] = new(big.Int)
			vin := x.VecFromBig(in)
			type exp struct {
				full []*big.Int
				at   map[int]*big.Int
			}
			for _, custom := range []bool{false, true} {
				var sh *big.Int
				if custom {
					sh = matrixShift(f)
				}
				var cds [2]*checkedDomain
				cds[0] = newChecked(t, x, logn, true, sh)
				cds[1] = newChecked(t, x, logn, false, sh)
				R := cds[0].R
				idx := []int{0, 1, n/2 - 1, n / 2, n - 1, int(seed.next() % uint64(n)), int(seed.next() % uint64(n))}
				want := map[[2]bool]*exp{} // (coset, inverse)
				for _, coset := range []bool{false, true} {
					if custom && !coset {
						continue // the shift is irrelevant without the coset option: covered by custom=false
					}
					for _, inverse := range []bool{false, true} {
						e := &exp{}
						var s *big.Int
						if coset {
							s = cds[0].shift
						}
						if logn <= fullDFTMaxLog {
							if inverse {
								e.full = R.Inverse(in, s)
							} else {
								e.full = R.Transform(in, s)
							}
						} else if !inverse {
							e.at = map[int]*big.Int{}
							for _, i := range idx {
								e.at[i] = R.EvalAt(in, R.Point(i, s))
							}
						}
						want[[2]bool{coset, inverse}] = e
					}
				}
				for _, procs := range procsList {
					runtime.GOMAXPROCS(procs)
					for pi, pre := range []bool{true, false} {
						cd := cds[pi]
						for _, coset := range []bool{false, true} {
							if custom && !coset {
								continue
							}
							for _, dec := range []inst.Decimation{inst.DIT, inst.DIF} {
								for _, tasks := range tasksList {
									for _, inverse := range []bool{false, true} {
										c := cfg{logn: logn, dec: dec, coset: coset, pre: pre, custom: custom, tasks: tasks, inverse: inverse}
										out := cd.apply(x, vin, c)
										e := want[[2]bool{coset, inverse}]
										name := fmt.Sprintf("%s %s GOMAXPROCS=%d", x.Name(), c, procs)
										chk := "check=full"
										switch {
										case e.full != nil:
											got := x.VecToBig(out)
											for i := range got {
												if got[i].Cmp(e.full[i]) != 0 {
													t.Fatalf("%s: natural-order output index %d: got %s want %s", name, i, got[i], e.full[i])
												}
											}
										case !inverse:
											chk = "check=sampled"
											for _, i := range idx {
												if g := out.At(i).Big(); g.Cmp(e.at[i]) != 0 {
													t.Fatalf("%s: natural-order output index %d: got %s want %s (Horner)", name, i, g, e.at[i])
												}
											}
										default:
											chk = "check=sampled"
											coef := x.VecToBig(out)
											var s *big.Int
											if coset {
												s = cd.shift
											}
											for _, i := range idx[:4] {
												if v := R.EvalAt(coef, R.Point(i, s)); v.Cmp(in[i]) != 0 {
													t.Fatalf("%s: returned coefficients evaluate to %s at point %d, input value %s", name, v, i, in[i])
												}
											}
										}
										rep.Case(test, name+" seed="+strconv.FormatUint(baseSeed, 10), c.nontrivial(x),
											append(c.classes(x), fmt.Sprintf("GOMAXPROCS=%d", procs), chk)...)
									}
								}
							}
						}
					}
				}
			}
		}
	})
}

var _ = ref.BitRev
