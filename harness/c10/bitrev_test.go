package c10

import (
	"fmt"
	"math/big"
	"testing"

	"pgregory.net/rapid"

	"verif/harness/internal/inst"
	"verif/harness/internal/ref"
	"verif/harness/internal/rep"
)

// bitRevSizes: every size 2^0..2^14, plus the sizes at which the amd64 implementation switches to the
// specialised cobra routines (2^21, thorough also 2^22).
func bitRevSizes() []int {
	var l []int
	for k := 0; k <= 14; k++ {
		l = append(l, k)
	}
	l = append(l, 21)
	if rep.Thorough() {
		l = append(l, 17, 20, 22)
	}
	return l
}

// TestC10_BitReverse: BitReverse(v)[i] = v[rev(i)] with rev computed by the reference, and
// BitReverse∘BitReverse = id, for v = (0,1,…,n-1) (distinct entries: decides the permutation completely).
func TestC10_BitReverse(t *testing.T) {
	forFFTs(t, func(t *testing.T, x inst.FFT) {
		test := "C10_BitReverse/" + x.Name()
		f := x.F()
		for _, logn := range bitRevSizes() {
			n := 1 << uint(logn)
			if new(big.Int).SetUint64(uint64(n)).Cmp(f.Q()) >= 0 {
				continue
			}
			id := f.NewVec(n)
			for i := 0; i < n; i += 1 << 16 {
				hi := i + 1<<16
				if hi > n {
					hi = n
				}
				vals := make([]*big.Int, hi-i)
				for k := range vals {
					vals[k] = big.NewInt(int64(i + k))
				}
				x.VecCopy(id.Slice(i, hi), x.VecFromBig(vals))
			}
			v := id.Clone()
			x.BitReverse(v)
			for i := 0; i < n; i++ {
				r := int(ref.BitRev(uint64(i), logn))
				if !x.VecEq(v, i, id, r) {
					t.Fatalf("%s: BitReverse, n=2^%d: slot %d holds %s, want entry %d", x.Name(), logn, i, v.At(i).Big(), r)
				}
			}
			x.BitReverse(v)
			if i := firstDiff(x, v, id); i >= 0 {
				t.Fatalf("%s: BitReverse twice, n=2^%d: slot %d holds %s", x.Name(), logn, i, v.At(i).Big())
			}
			rep.Case(test, fmt.Sprintf("%s BitReverse n=2^%d iota", x.Name(), logn), logn >= 2, fmt.Sprintf("n=2^%d", logn), "bitreverse:permutation+involution")
		}
		rep.Exhaustive(test)
	})
}

// TestC10_BitReverseRandom: same statement on drawn contents (repeated entries, lattice values).
func TestC10_BitReverseRandom(t *testing.T) {
	forFFTs(t, func(t *testing.T, x inst.FFT) {
		test := "C10_BitReverseRandom/" + x.Name()
		f := x.F()
		rapid.Check(t, func(t *rapid.T) {
			logn := rapid.IntRange(0, 12).Draw(t, "logn")
			n := 1 << uint(logn)
			in, vcls := drawVector(t, f, n)
			orig := x.VecFromBig(in)
			v := orig.Clone()
			x.BitReverse(v)
			for i := 0; i < n; i++ {
				if r := int(ref.BitRev(uint64(i), logn)); !x.VecEq(v, i, orig, r) {
					t.Fatalf("%s: BitReverse, n=2^%d: slot %d != entry %d", x.Name(), logn, i, r)
				}
			}
			x.BitReverse(v)
			if i := firstDiff(x, v, orig); i >= 0 {
				t.Fatalf("%s: BitReverse twice, n=2^%d: slot %d differs", x.Name(), logn, i)
			}
			rep.Case(test, fmt.Sprintf("%s BitReverse n=2^%d %s#%s", x.Name(), logn, vcls, hashVals(in)), logn >= 2, fmt.Sprintf("n=2^%d", logn), vcls)
		})
	})
}
