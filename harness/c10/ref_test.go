package c10

import (
	"math/big"
	"testing"

	"verif/harness/internal/inst"
	"verif/harness/internal/ref"
	"verif/harness/internal/rep"
)

func bigs(v ...int64) []*big.Int {
	out := make([]*big.Int, len(v))
	for i, x := range v {
		out[i] = big.NewInt(x)
	}
	return out
}

// TestC10_RefSelf anchors the reference itself on fixed points that do not come from the library:
// a hand-computed transform over F_17, agreement of the three evaluation routes (O(n²) sum, Horner,
// closed-form basis images), Inverse∘Transform = id, and the bit-reversal permutation on a written-out table.
func TestC10_RefSelf(t *testing.T) {
	// F_17, n=4, w=4 (4^2 = 16 = -1): a=(1,2,3,4) -> (10, 7, 15, 6), computed by hand.
	q := big.NewInt(17)
	R, err := ref.NewDFT(q, 4, big.NewInt(4))
	if err != nil {
		t.Fatal(err)
	}
	got := R.Transform(bigs(1, 2, 3, 4), nil)
	for i, w := range bigs(10, 7, 15, 6) {
		if got[i].Cmp(w) != 0 {
			t.Fatalf("ref.Transform over F_17: index %d: got %s want %s", i, got[i], w)
		}
	}
	// coset s=3: points 3, 12, 14, 5: p(3)=1+6+27+108=142=6, p(12)=1+24+432+6912=7369=8, p(14)=1+28+588+10976=11593=16, p(5)=1+10+75+500=586=8
	got = R.Transform(bigs(1, 2, 3, 4), big.NewInt(3))
	for i, w := range bigs(6, 8, 16, 8) {
		if got[i].Cmp(w) != 0 {
			t.Fatalf("ref.Transform over F_17 on the coset 3<4>: index %d: got %s want %s", i, got[i], w)
		}
	}
	if _, err := ref.NewDFT(q, 4, big.NewInt(16)); err == nil {
		t.Fatal("ref.NewDFT accepted a root of order 2 for n=4")
	}
	if _, err := ref.NewDFT(q, 32, big.NewInt(3)); err == nil {
		t.Fatal("ref.NewDFT accepted n=32 over F_17")
	}
	want8 := []int{0, 4, 2, 6, 1, 5, 3, 7}
	for i, p := range ref.BitRevPerm(8) {
		if p != want8[i] {
			t.Fatalf("ref.BitRevPerm(8)[%d] = %d want %d", i, p, want8[i])
		}
	}
	if ref.TwoAdicity(big.NewInt(17)) != 4 || ref.TwoAdicity(big.NewInt(2013265921)) != 27 {
		t.Fatal("ref.TwoAdicity")
	}
	// real fields: the three routes agree, inverse undoes the transform
	for _, x := range inst.FFTs() {
		f := x.F()
		for _, logn := range []int{0, 1, 3, 5} {
			n := 1 << uint(logn)
			cd := newChecked(t, x, logn, true, nil)
			seed := sm64(uint64(logn) + 99)
			a := make([]*big.Int, n)
			for i := range a {
				a[i] = seed.elem(f.Q(), words(f))
			}
			for _, s := range []*big.Int{nil, cd.shift} {
				tr := cd.R.Transform(a, s)
				for i := 0; i < n; i++ {
					if h := cd.R.EvalAt(a, cd.R.Point(i, s)); h.Cmp(tr[i]) != 0 {
						t.Fatalf("%s: ref.Transform and Horner disagree at %d (n=%d)", x.Name(), i, n)
					}
				}
				back := cd.R.Inverse(tr, s)
				for i := range a {
					if back[i].Cmp(a[i]) != 0 {
						t.Fatalf("%s: ref.Inverse(ref.Transform(a)) != a at %d (n=%d)", x.Name(), i, n)
					}
				}
				for j := 0; j < n; j++ {
					e := make([]*big.Int, n)
					for i := range e {
						e[i] = new(big.Int)
					}
					e[j] = big.NewInt(1)
					bf, bi := cd.R.BasisForward(j, s), cd.R.BasisInverse(j, s)
					tf, ti := cd.R.Transform(e, s), cd.R.Inverse(e, s)
					for i := 0; i < n; i++ {
						if bf[i].Cmp(tf[i]) != 0 || bi[i].Cmp(ti[i]) != 0 {
							t.Fatalf("%s: closed-form basis image differs from the definition (n=%d j=%d i=%d)", x.Name(), n, j, i)
						}
					}
				}
			}
		}
	}
	rep.Case("C10_RefSelf", "reference anchors", false, "ref:selfcheck")
}
