package c10

import (
	"bytes"
	"errors"
	"fmt"
	"io"
	"testing"

	"verif/harness/internal/inst"
	"verif/harness/internal/rep"
)

var errSink = errors.New("verif: sink refuses the write")

// faultSink is an io.Writer that obeys the io.Writer contract (n < len(p) ⇒ non-nil error) and injects one kind
// of failure. It records exactly the bytes it accepted and whether any Write failed.
//
//	fail_at          every Write from the k-th on fails, nothing accepted
//	fail_once_at     only the k-th Write fails (nothing accepted), later ones succeed
//	short_at         the k-th Write accepts `short` bytes (< len(p)) and returns io.ErrShortWrite, later ones succeed
//	capacity_partial at most cap bytes in total: a Write that does not fit is cut (partial accept + error)
//	capacity_reject  at most cap bytes in total: a Write that does not fit is refused entirely, a later smaller one may fit
type faultSink struct {
	mode   string
	k      int
	short  int
	cap    int
	buf    []byte
	calls  int
	failed bool
}

func (s *faultSink) Write(p []byte) (int, error) {
	s.calls++
	switch s.mode {
	case "fail_at":
		if s.calls >= s.k {
			s.failed = true
			return 0, errSink
		}
	case "fail_once_at":
		if s.calls == s.k {
			s.failed = true
			return 0, errSink
		}
	case "short_at":
		if s.calls == s.k && len(p) > 0 {
			j := s.short
			if j > len(p)-1 {
				j = len(p) - 1
			}
			s.buf = append(s.buf, p[:j]...)
			s.failed = true
			return j, io.ErrShortWrite
		}
	case "capacity_partial":
		if room := s.cap - len(s.buf); len(p) > room {
			s.buf = append(s.buf, p[:room]...)
			s.failed = true
			return room, errSink
		}
	case "capacity_reject":
		if room := s.cap - len(s.buf); len(p) > room {
			s.failed = true
			return 0, errSink
		}
	}
	s.buf = append(s.buf, p...)
	return len(p), nil
}

func (s *faultSink) String() string {
	switch s.mode {
	case "short_at":
		return fmt.Sprintf("sink(%s k=%d accept=%d)", s.mode, s.k, s.short)
	case "capacity_partial", "capacity_reject":
		return fmt.Sprintf("sink(%s cap=%d)", s.mode, s.cap)
	}
	return fmt.Sprintf("sink(%s k=%d)", s.mode, s.k)
}

// TestC10_DomainWriteFaults: Domain.WriteTo against fault-injecting sinks, every field, every failure position.
//
//	(a) a failed or short Write ⇒ WriteTo returns a non-nil error (never (n, nil) for a stream with a hole);
//	    the reported count never exceeds what the sink accepted;
//	(b) err == nil ⇒ no Write failed, the reported count is the number of accepted bytes, and the accepted bytes
//	    decode (ReadFrom) to a domain with the same exported fields and the same table presence.
func TestC10_DomainWriteFaults(t *testing.T) {
	forFFTs(t, func(t *testing.T, x inst.FFT) {
		test := tname("C10_DomainWriteFaults", x)
		f := x.F()
		type dd struct {
			name string
			d    inst.Domain
		}
		doms := []dd{
			{"n=1", x.NewDomain(1, inst.DomainOpt{})},
			{"n=8", x.NewDomain(8, inst.DomainOpt{})},
			{"n=8,noprecompute", x.NewDomain(8, inst.DomainOpt{WithoutPrecompute: true})},
			{"n=16,shift", x.NewDomain(16, inst.DomainOpt{Shift: f.FromBig(matrixShift(f))})},
		}
		for _, dm := range doms {
			var ok bytes.Buffer
			if _, err := dm.d.WriteTo(&ok); err != nil {
				t.Fatalf("%s: WriteTo(bytes.Buffer): %v", x.Name(), err)
			}
			enc := ok.Bytes()
			var sinks []*faultSink
			for k := 1; k <= 9; k++ { // WriteTo issues 7 Writes; k = 8, 9: no failure
				sinks = append(sinks, &faultSink{mode: "fail_at", k: k}, &faultSink{mode: "fail_once_at", k: k})
				for _, j := range []int{0, 1, 7, f.Bytes() - 1} {
					sinks = append(sinks, &faultSink{mode: "short_at", k: k, short: j})
				}
			}
			for c := 0; c <= len(enc)+1; c++ {
				sinks = append(sinks, &faultSink{mode: "capacity_partial", cap: c}, &faultSink{mode: "capacity_reject", cap: c})
			}
			for _, s := range sinks {
				what := fmt.Sprintf("%s Domain(%s).WriteTo(%s)", x.Name(), dm.name, s)
				n, err := dm.d.WriteTo(s)
				cls := "sink_outcome:complete"
				if s.failed {
					cls = "sink_outcome:write_failed"
					// a failure that cost data must be reported; the count returned together with an error is outside the
					// property's statement and not asserted
					if err == nil && !bytes.Equal(s.buf, enc) {
						t.Fatalf("%s: a Write failed (call %d of the sink) but WriteTo returned (%d, nil); the sink holds %d of %d bytes", what, s.calls, n, len(s.buf), len(enc))
					}
				} else {
					if err != nil {
						t.Fatalf("%s: no Write failed but WriteTo returned %v", what, err)
					}
				}
				if err == nil {
					if n != int64(len(s.buf)) {
						t.Fatalf("%s: WriteTo reports %d bytes written, the sink accepted %d", what, n, len(s.buf))
					}
					if !bytes.Equal(s.buf, enc) {
						t.Fatalf("%s: success reported but the accepted bytes differ from the encoding written to a bytes.Buffer", what)
					}
					d2 := x.ZeroDomain()
					if _, err := d2.ReadFrom(bytes.NewReader(s.buf)); err != nil {
						t.Fatalf("%s: success reported but the accepted bytes do not decode: %v", what, err)
					}
					if msg := sameFields(x, dm.d, d2); msg != "" {
						t.Fatalf("%s: success reported but the accepted bytes decode to another domain: %s", what, msg)
					}
					if msg := sameTables(x, dm.d, d2); msg != "" {
						t.Fatalf("%s: success reported but the accepted bytes decode to another domain: %s", what, msg)
					}
				}
				rep.Case(test, what, s.failed, "sink:"+s.mode, cls)
			}
		}
		rep.Exhaustive(test)
	})
}
