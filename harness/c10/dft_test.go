package c10

import (
	"fmt"
	"math/big"
	"testing"

	"pgregory.net/rapid"

	"verif/harness/internal/inst"
	"verif/harness/internal/ref"
	"verif/harness/internal/rep"
)

const fullDFTMaxLog = 10 // full O(n²) reference comparison up to this size, sampled Horner checks above

func drawCfg(t *rapid.T, logn int) cfg {
	return cfg{
		logn:    logn,
		dec:     rapid.SampledFrom([]inst.Decimation{inst.DIT, inst.DIF}).Draw(t, "dec"),
		coset:   rapid.Bool().Draw(t, "coset"),
		pre:     rapid.Bool().Draw(t, "precompute"),
		tasks:   drawTasks(t),
		inverse: rapid.Bool().Draw(t, "inverse"),
	}
}

// sampleIdx draws k indices in 0..n-1, boundary-biased.
func sampleIdx(t *rapid.T, n, k int) []int {
	if n <= k {
		out := make([]int, n)
		for i := range out {
			out[i] = i
		}
		return out
	}
	out := make([]int, k)
	for i := range out {
		out[i] = rapid.OneOf(rapid.IntRange(0, n-1), rapid.SampledFrom([]int{0, 1, n - 1, n / 2, n/2 - 1, n/2 + 1, n / 4, 3 * n / 4})).Draw(t, "idx")
	}
	return out
}

// checkAgainstRef compares the natural-order library output with the reference: completely for
// n <= 2^fullDFTMaxLog, at sampled indices (Horner evaluation) above.
//
// forward: out[i] must be the value of the polynomial `in` at s·ω^i.
// inverse: the polynomial with coefficients `out` must take the value in[i] at s·ω^i (and, when compared
// completely, equal ref.Inverse).
func checkAgainstRef(t *rapid.T, x inst.FFT, cd *checkedDomain, c cfg, in []*big.Int, out inst.Vec, nsamples int) string {
	n := len(in)
	s := cd.refShift(c)
	name := x.Name() + " " + c.String()
	if c.logn <= fullDFTMaxLog {
		var want []*big.Int
		if c.inverse {
			want = cd.R.Inverse(in, s)
		} else {
			want = cd.R.Transform(in, s)
		}
		got := x.VecToBig(out)
		for i := 0; i < n; i++ {
			if got[i].Cmp(want[i]) != 0 {
				t.Fatalf("%s: natural-order output index %d: got %s want %s", name, i, got[i], want[i])
			}
		}
		return "check=full"
	}
	idx := sampleIdx(t, n, nsamples)
	if c.inverse {
		coef := x.VecToBig(out)
		for _, i := range idx {
			if v := cd.R.EvalAt(coef, cd.R.Point(i, s)); v.Cmp(in[i]) != 0 {
				t.Fatalf("%s: the returned coefficients evaluate to %s at point %d, the input value there is %s", name, v, i, in[i])
			}
		}
		return "check=sampled"
	}
	for _, i := range idx {
		want := cd.R.EvalAt(in, cd.R.Point(i, s))
		if got := out.At(i).Big(); got.Cmp(want) != 0 {
			t.Fatalf("%s: natural-order output index %d: got %s want %s (Horner)", name, i, got, want)
		}
	}
	return "check=sampled"
}

func propDFT(t *rapid.T, x inst.FFT, test string, logn int, nsamples int) {
	f := x.F()
	n := 1 << uint(logn)
	c := drawCfg(t, logn)
	sh := drawShift(t, f)
	c.custom = sh != nil
	cd := newChecked(t, x, logn, c.pre, sh)
	in, vcls := drawVector(t, f, n)
	vin := x.VecFromBig(in)
	out := cd.apply(x, vin, c)
	// the input vector handed to apply must not have been touched (apply copies)
	chk := checkAgainstRef(t, x, cd, c, in, out, nsamples)
	cls := append(c.classes(x), vcls, chk)
	if c.custom && cd.R.ShiftInSubgroup(cd.shift) {
		cls = append(cls, "shift:in_subgroup")
	}
	sk := "default"
	if sh != nil {
		sk = sh.Text(16)
	}
	rep.Case(test, fmt.Sprintf("%s %s shift=%s %s#%s", x.Name(), c, sk, vcls, hashVals(in)), c.nontrivial(x), cls...)
}

// TestC10_DFT: random / lattice vectors, random options, sizes 2^0..2^12; complete comparison with the O(n²)
// reference up to 2^10, sampled Horner evaluation above.
func TestC10_DFT(t *testing.T) {
	forFFTs(t, func(t *testing.T, x inst.FFT) {
		test := tname("C10_DFT", x)
		rapid.Check(t, func(t *rapid.T) {
			var logn int
			switch rapid.IntRange(0, 9).Draw(t, "sizeclass") {
			case 0, 1, 2:
				logn = rapid.IntRange(0, 4).Draw(t, "logn")
			case 3, 4, 5, 6:
				logn = rapid.IntRange(5, 8).Draw(t, "logn")
			case 7:
				logn = rapid.IntRange(9, 10).Draw(t, "logn")
			default:
				logn = rapid.IntRange(11, 12).Draw(t, "logn")
			}
			propDFT(t, x, test, logn, 6)
		})
	})
}

// TestC10_Large: sizes 2^13..2^16 (thorough: ..2^20), sampled-index checks.
func TestC10_Large(t *testing.T) {
	forFFTs(t, func(t *testing.T, x inst.FFT) {
		test := "C10_Large/" + x.Name()
		maxLog := rep.Scale(16, 20)
		if ta := ref.TwoAdicity(x.F().Q()); maxLog > ta {
			maxLog = ta
		}
		rapid.Check(t, func(t *rapid.T) {
			logn := rapid.IntRange(13, maxLog).Draw(t, "logn")
			propDFT(t, x, test, logn, 4)
		})
	})
}

// TestC10_RoundTrip: FFTInverse∘FFT = id and FFT∘FFTInverse = id for every pairing of decimations (with the
// bit-reversal the documented orderings require in between), independent task counts on both sides, and
// the two sides optionally running on two different domain objects (tables vs on-the-fly) of the same shift.
func TestC10_RoundTrip(t *testing.T) {
	forFFTs(t, func(t *testing.T, x inst.FFT) {
		test := "C10_RoundTrip/" + x.Name()
		f := x.F()
		rapid.Check(t, func(t *rapid.T) {
			logn := rapid.OneOf(rapid.IntRange(0, 9), rapid.IntRange(0, 14)).Draw(t, "logn")
			n := 1 << uint(logn)
			sh := drawShift(t, f)
			coset := rapid.Bool().Draw(t, "coset")
			pre1 := rapid.Bool().Draw(t, "pre1")
			pre2 := rapid.Bool().Draw(t, "pre2")
			d1 := newChecked(t, x, logn, pre1, sh)
			d2 := d1
			if pre2 != pre1 {
				d2 = newChecked(t, x, logn, pre2, sh)
			}
			decs := []inst.Decimation{inst.DIT, inst.DIF}
			dec1 := rapid.SampledFrom(decs).Draw(t, "dec1")
			dec2 := rapid.SampledFrom(decs).Draw(t, "dec2")
			t1, t2 := drawTasks(t), drawTasks(t)
			invFirst := rapid.Bool().Draw(t, "inverseFirst")
			in, vcls := drawVector(t, f, n)
			orig := x.VecFromBig(in)
			c1 := cfg{logn: logn, dec: dec1, coset: coset, pre: pre1, custom: sh != nil, tasks: t1, inverse: invFirst}
			c2 := cfg{logn: logn, dec: dec2, coset: coset, pre: pre2, custom: sh != nil, tasks: t2, inverse: !invFirst}
			mid := d1.apply(x, orig, c1)
			back := d2.apply(x, mid, c2)
			if i := firstDiff(x, back, orig); i >= 0 {
				t.Fatalf("%s: [%s] then [%s] is not the identity: index %d: got %s want %s", x.Name(), c1, c2, i, back.At(i).Big(), in[i])
			}
			order := "order=FFT,FFTInverse"
			if invFirst {
				order = "order=FFTInverse,FFT"
			}
			cls := append(c1.classes(x), "pair="+dec1.String()+"→"+dec2.String(), order, vcls)
			sk := "default"
			if sh != nil {
				sk = sh.Text(16)
			}
			rep.Case(test, fmt.Sprintf("%s [%s] [%s] shift=%s %s#%s", x.Name(), c1, c2, sk, vcls, hashVals(in)),
				c1.nontrivial(x) || c2.nontrivial(x), cls...)
		})
	})
}
