package c10

import (
	"bytes"
	"fmt"
	"io"
	"math/big"
	"testing"
	"testing/iotest"

	"pgregory.net/rapid"

	"verif/harness/internal/inst"
	"verif/harness/internal/rep"
)

// chunkReader returns the data in chunks of the given sizes (cyclically), never more than asked for.
type chunkReader struct {
	data   []byte
	sizes  []int
	k, pos int
}

func (c *chunkReader) Read(p []byte) (int, error) {
	if c.pos >= len(c.data) {
		return 0, io.EOF
	}
	n := c.sizes[c.k%len(c.sizes)]
	c.k++
	if n > len(p) {
		n = len(p)
	}
	if n > len(c.data)-c.pos {
		n = len(c.data) - c.pos
	}
	copy(p, c.data[c.pos:c.pos+n])
	c.pos += n
	return n, nil
}

var readerKinds = []string{"whole", "onebyte", "half", "dataerr", "chunks", "onebyte+dataerr"}

func mkReader(t *rapid.T, kind string, b []byte) io.Reader {
	switch kind {
	case "whole":
		return bytes.NewReader(b)
	case "onebyte":
		return iotest.OneByteReader(bytes.NewReader(b))
	case "half":
		return iotest.HalfReader(bytes.NewReader(b))
	case "dataerr":
		return iotest.DataErrReader(bytes.NewReader(b))
	case "onebyte+dataerr":
		return iotest.DataErrReader(iotest.OneByteReader(bytes.NewReader(b)))
	default:
		sizes := rapid.SliceOfN(rapid.IntRange(1, 70), 1, 12).Draw(t, "chunks")
		return &chunkReader{data: b, sizes: sizes}
	}
}

func sameFields(x inst.FFT, a, b inst.Domain) string {
	if a.Cardinality() != b.Cardinality() {
		return fmt.Sprintf("Cardinality %d != %d", b.Cardinality(), a.Cardinality())
	}
	for _, p := range []struct {
		n    string
		u, v inst.E
	}{{"CardinalityInv", a.CardinalityInv(), b.CardinalityInv()}, {"Generator", a.Generator(), b.Generator()},
		{"GeneratorInv", a.GeneratorInv(), b.GeneratorInv()}, {"FrMultiplicativeGen", a.FrMultiplicativeGen(), b.FrMultiplicativeGen()},
		{"FrMultiplicativeGenInv", a.FrMultiplicativeGenInv(), b.FrMultiplicativeGenInv()}} {
		if !p.u.Equal(p.v) {
			return fmt.Sprintf("%s: restored %s, original %s", p.n, p.v.Big(), p.u.Big())
		}
	}
	return ""
}

// sameBehaviour runs every (direction, decimation, coset) transform on both domains with the same input.
func sameBehaviour(x inst.FFT, a, b inst.Domain, in inst.Vec) string {
	for _, inverse := range []bool{false, true} {
		for _, dec := range []inst.Decimation{inst.DIT, inst.DIF} {
			for _, coset := range []bool{false, true} {
				u, v := in.Clone(), in.Clone()
				o := inst.FFTOpt{Coset: coset, NbTasks: 3}
				if inverse {
					a.FFTInverse(u, dec, o)
					b.FFTInverse(v, dec, o)
				} else {
					a.FFT(u, dec, o)
					b.FFT(v, dec, o)
				}
				if i := firstDiff(x, v, u); i >= 0 {
					return fmt.Sprintf("inverse=%v %s coset=%v: output %d differs: restored %s, original %s", inverse, dec, coset, i, v.At(i).Big(), u.At(i).Big())
				}
			}
		}
	}
	return sameTables(x, a, b)
}

// sameTables compares presence and contents of the four precomputed tables behind the accessors
// Twiddles / TwiddlesInv / CosetTable / CosetTableInv ("... or an error if the domain was created with the
// WithoutPrecompute option").
func sameTables(x inst.FFT, a, b inst.Domain) string {
	for _, tw := range []struct {
		n string
		f func(inst.Domain) ([]inst.Vec, error)
	}{{"Twiddles", inst.Domain.Twiddles}, {"TwiddlesInv", inst.Domain.TwiddlesInv}} {
		ta, e1 := tw.f(a)
		tb, e2 := tw.f(b)
		if (e1 == nil) != (e2 == nil) {
			return fmt.Sprintf("%s() available: original %v, restored %v", tw.n, e1 == nil, e2 == nil)
		}
		if e1 != nil {
			continue
		}
		if len(ta) != len(tb) {
			return fmt.Sprintf("%s(): %d stages, original has %d", tw.n, len(tb), len(ta))
		}
		for k := range ta {
			if ta[k].Len() != tb[k].Len() {
				return fmt.Sprintf("%s()[%d]: length %d, original %d", tw.n, k, tb[k].Len(), ta[k].Len())
			}
			if i := firstDiff(x, tb[k], ta[k]); i >= 0 {
				return fmt.Sprintf("%s()[%d][%d]: restored %s, original %s", tw.n, k, i, tb[k].At(i).Big(), ta[k].At(i).Big())
			}
		}
	}
	for _, ct := range []struct {
		n string
		f func(inst.Domain) (inst.Vec, error)
	}{{"CosetTable", inst.Domain.CosetTable}, {"CosetTableInv", inst.Domain.CosetTableInv}} {
		ca, e1 := ct.f(a)
		cb, e2 := ct.f(b)
		if (e1 == nil) != (e2 == nil) {
			return fmt.Sprintf("%s() available: original %v, restored %v", ct.n, e1 == nil, e2 == nil)
		}
		if e1 != nil {
			continue
		}
		if ca.Len() != cb.Len() {
			return fmt.Sprintf("%s(): length %d, original %d", ct.n, cb.Len(), ca.Len())
		}
		if i := firstDiff(x, cb, ca); i >= 0 {
			return fmt.Sprintf("%s()[%d]: restored %s, original %s", ct.n, i, cb.At(i).Big(), ca.At(i).Big())
		}
	}
	return ""
}

// receiverKinds: the history of the object ReadFrom decodes into.
var receiverKinds = []string{"zero", "other_size", "other_size", "same_size_other_shift", "same_size_noprecompute", "after_readfrom", "same_size_other_shift_used"}

// otherShift returns a non-zero shift different from s (the FrMultiplicativeGen of the source).
func otherShift(t *rapid.T, f inst.Field, s *big.Int) *big.Int {
	v, _ := spec(f).Elem(t, "oldshift")
	one := big.NewInt(1)
	for v.Sign() == 0 || v.Cmp(s) == 0 {
		v = new(big.Int).Add(v, one)
		v.Mod(v, f.Q())
	}
	return v
}

// receiver is the object ReadFrom decodes into, with the parameters of its previous life.
type receiver struct {
	d    inst.Domain
	zero bool
	logn int            // previous cardinality 2^logn
	pre  bool           // previous life had precomputed tables
	opt  inst.DomainOpt // options that rebuild a fresh domain with the parameters of the previous life
}

// mkReceiver builds the receiver of ReadFrom: (a) a zero Domain, (b) a NewDomain of another size (smaller or
// larger, with or without tables), (c) the same size with another shift (tables present), (d) the same size without
// precompute, (e) a Domain that already decoded another same-size domain, (f) like (c) after it has been used for
// coset transforms.
func mkReceiver(t *rapid.T, x inst.FFT, kind string, logn int, srcShift *big.Int) *receiver {
	f := x.F()
	n := uint64(1) << uint(logn)
	old := otherShift(t, f, srcShift)
	switch kind {
	case "zero":
		return &receiver{d: x.ZeroDomain(), zero: true}
	case "other_size":
		l2 := rapid.IntRange(0, 10).Draw(t, "oldlogn")
		if l2 == logn {
			l2 = (logn + 1) % 11
		}
		o := inst.DomainOpt{WithoutPrecompute: rapid.IntRange(0, 3).Draw(t, "oldnopre") == 0}
		if rapid.IntRange(0, 3).Draw(t, "oldcustom") != 0 {
			o.Shift = f.FromBig(old)
		}
		return &receiver{d: x.NewDomain(uint64(1)<<uint(l2), o), logn: l2, pre: !o.WithoutPrecompute, opt: o}
	case "same_size_other_shift":
		o := inst.DomainOpt{Shift: f.FromBig(old)}
		return &receiver{d: x.NewDomain(n, o), logn: logn, pre: true, opt: o}
	case "same_size_other_shift_used":
		o := inst.DomainOpt{Shift: f.FromBig(old)}
		d := x.NewDomain(n, o)
		v := f.NewVec(int(n))
		d.FFT(v, inst.DIF, inst.FFTOpt{Coset: true})
		d.FFTInverse(v, inst.DIT, inst.FFTOpt{Coset: true})
		return &receiver{d: d, logn: logn, pre: true, opt: o}
	case "same_size_noprecompute":
		o := inst.DomainOpt{Shift: f.FromBig(old), WithoutPrecompute: true}
		return &receiver{d: x.NewDomain(n, o), logn: logn, pre: false, opt: o}
	default: // after_readfrom
		o := inst.DomainOpt{Shift: f.FromBig(old), WithoutPrecompute: rapid.Bool().Draw(t, "prevnopre")}
		prev := x.NewDomain(n, o)
		var w bytes.Buffer
		if _, err := prev.WriteTo(&w); err != nil {
			t.Fatalf("%s: WriteTo: %v", x.Name(), err)
		}
		d := x.ZeroDomain()
		if _, err := d.ReadFrom(bytes.NewReader(w.Bytes())); err != nil {
			t.Fatalf("%s: first ReadFrom of the receiver: %v", x.Name(), err)
		}
		return &receiver{d: d, logn: logn, pre: !o.WithoutPrecompute, opt: o}
	}
}

// heldTable is a slice handed out by Twiddles/TwiddlesInv/CosetTable/CosetTableInv before the receiver is
// refreshed, with a snapshot of its contents.
type heldTable struct {
	name       string
	live, snap inst.Vec
}

// held is what a caller may still hold from the previous life of a refreshed domain: the table slices the
// accessors returned and a plain value copy of the struct.
type held struct {
	tables []heldTable
	cp     inst.Domain
}

func (rc *receiver) hold() *held {
	if rc.zero {
		return nil
	}
	h := &held{cp: rc.d.ValueCopy()}
	add := func(name string, v inst.Vec) { h.tables = append(h.tables, heldTable{name, v, v.Clone()}) }
	if tw, err := rc.d.Twiddles(); err == nil {
		for k, v := range tw {
			add(fmt.Sprintf("Twiddles()[%d]", k), v)
		}
	}
	if tw, err := rc.d.TwiddlesInv(); err == nil {
		for k, v := range tw {
			add(fmt.Sprintf("TwiddlesInv()[%d]", k), v)
		}
	}
	if v, err := rc.d.CosetTable(); err == nil {
		add("CosetTable()", v)
	}
	if v, err := rc.d.CosetTableInv(); err == nil {
		add("CosetTableInv()", v)
	}
	return h
}

// checkHeld runs after the receiver has been refreshed by ReadFrom: (i) the slices handed out earlier are
// bit-identical to their snapshots, (ii) the value copy taken earlier still is the domain of its own parameters:
// exported fields validated by the reference, tables equal to those of a freshly built domain, all 8 transforms
// equal to the reference DFT.
func (rc *receiver) checkHeld(t *rapid.T, x inst.FFT, h *held, what string) {
	if h == nil {
		return
	}
	for _, ht := range h.tables {
		if i := firstDiff(x, ht.live, ht.snap); i >= 0 {
			t.Fatalf("%s: the slice returned by %s before the receiver was refreshed changed at index %d: %s, was %s", what, ht.name, i, ht.live.At(i).Big(), ht.snap.At(i).Big())
		}
	}
	n := uint64(1) << uint(rc.logn)
	fresh := x.NewDomain(n, rc.opt)
	if msg := sameFields(x, fresh, h.cp); msg != "" {
		t.Fatalf("%s: value copy of the receiver taken before the refresh: %s", what, msg)
	}
	if msg := sameTables(x, fresh, h.cp); msg != "" {
		t.Fatalf("%s: value copy of the receiver taken before the refresh (n=2^%d) no longer matches a freshly built domain of its parameters: %s", what, rc.logn, msg)
	}
	cdOld := validate(t, x, h.cp, n, h.cp.FrMultiplicativeGen().Big())
	seed := sm64(uint64(rc.logn)*7919 + 17)
	in := make([]*big.Int, n)
	for i := range in {
		in[i] = seed.elem(x.F().Q(), words(x.F()))
	}
	refBehaviour(t, x, cdOld, h.cp, in, what+": value copy of the receiver taken before the refresh")
}

// refBehaviour compares all 8 transform variants of the restored domain d with the reference DFT of the
// *source* description cd (completely for n <= 2^8, at sampled indices above).
func refBehaviour(t *rapid.T, x inst.FFT, cd *checkedDomain, d inst.Domain, in []*big.Int, what string) {
	rd := &checkedDomain{d: d, R: cd.R, shift: cd.shift, perm: cd.perm}
	n := len(in)
	vin := x.VecFromBig(in)
	logn := cd.R.LogN
	for _, coset := range []bool{false, true} {
		var s *big.Int
		if coset {
			s = cd.shift
		}
		for _, inverse := range []bool{false, true} {
			var want []*big.Int
			var idx []int
			if logn <= 8 {
				if inverse {
					want = cd.R.Inverse(in, s)
				} else {
					want = cd.R.Transform(in, s)
				}
			} else {
				idx = []int{0, 1, n / 2, n - 1}
			}
			for _, dec := range []inst.Decimation{inst.DIT, inst.DIF} {
				c := cfg{logn: logn, dec: dec, coset: coset, pre: true, tasks: 2, inverse: inverse}
				out := rd.apply(x, vin, c)
				switch {
				case want != nil:
					got := x.VecToBig(out)
					for i := range got {
						if got[i].Cmp(want[i]) != 0 {
							t.Fatalf("%s: restored domain: %s: natural-order output index %d: got %s, the reference DFT of the serialised domain gives %s", what, c, i, got[i], want[i])
						}
					}
				case inverse:
					coef := x.VecToBig(out)
					for _, i := range idx {
						if v := cd.R.EvalAt(coef, cd.R.Point(i, s)); v.Cmp(in[i]) != 0 {
							t.Fatalf("%s: restored domain: %s: returned coefficients evaluate to %s at point %d, input value %s", what, c, v, i, in[i])
						}
					}
				default:
					for _, i := range idx {
						if w, g := cd.R.EvalAt(in, cd.R.Point(i, s)), out.At(i).Big(); g.Cmp(w) != 0 {
							t.Fatalf("%s: restored domain: %s: natural-order output index %d: got %s want %s (Horner)", what, c, i, g, w)
						}
					}
				}
			}
		}
	}
}

// TestC10_DomainIO: WriteTo → ReadFrom through every reader chunking, into a receiver with every kind of
// history (zero value, another size, same size with another shift / without tables, already decoded into, used),
// restores a domain behaviourally identical to the source (exported fields, all 8 transforms equal to the source's
// and to the reference DFT, same tables behind the accessors); the byte counts are the encoding length; every strict prefix of the encoding is rejected.
func TestC10_DomainIO(t *testing.T) {
	forFFTs(t, func(t *testing.T, x inst.FFT) {
		test := "C10_DomainIO/" + x.Name()
		f := x.F()
		rapid.Check(t, func(t *rapid.T) {
			logn := rapid.OneOf(rapid.IntRange(0, 6), rapid.IntRange(0, 10)).Draw(t, "logn")
			n := 1 << uint(logn)
			pre := rapid.Bool().Draw(t, "precompute")
			sh := drawShift(t, f)
			cd := newChecked(t, x, logn, pre, sh)
			var w bytes.Buffer
			wn, err := cd.d.WriteTo(&w)
			if err != nil {
				t.Fatalf("%s: WriteTo: %v", x.Name(), err)
			}
			enc := w.Bytes()
			if wantLen := 8 + 5*f.Bytes() + 1; len(enc) != wantLen || wn != int64(wantLen) {
				t.Fatalf("%s: WriteTo wrote %d bytes and reported %d; the documented layout (Cardinality, 5 elements, flag) has %d", x.Name(), len(enc), wn, wantLen)
			}
			kind := rapid.SampledFrom(readerKinds).Draw(t, "reader")
			trailing := rapid.SampledFrom([]int{0, 0, 1, 40}).Draw(t, "trailing")
			stream := append(append([]byte{}, enc...), bytes.Repeat([]byte{0xa5}, trailing)...)
			into := rapid.SampledFrom(receiverKinds).Draw(t, "readfrom_into")
			rc := mkReceiver(t, x, into, logn, cd.shift)
			d2 := rc.d
			hd := rc.hold()
			rn, err := d2.ReadFrom(mkReader(t, kind, stream))
			cfgs := fmt.Sprintf("%s Domain(n=2^%d precompute=%s shift=%v) reader=%s trailing=%d readfrom_into=%s", x.Name(), logn, onoff(pre), sh, kind, trailing, into)
			if err != nil {
				t.Fatalf("%s: ReadFrom of a complete encoding failed: %v", cfgs, err)
			}
			if rn != int64(len(enc)) {
				t.Fatalf("%s: ReadFrom reported %d bytes, the encoding has %d", cfgs, rn, len(enc))
			}
			if msg := sameFields(x, cd.d, d2); msg != "" {
				t.Fatalf("%s: restored domain differs: %s", cfgs, msg)
			}
			in, vcls := drawVector(t, f, n)
			if msg := sameBehaviour(x, cd.d, d2, x.VecFromBig(in)); msg != "" {
				t.Fatalf("%s: restored domain behaves differently: %s", cfgs, msg)
			}
			refBehaviour(t, x, cd, d2, in, cfgs)
			rc.checkHeld(t, x, hd, cfgs)
			// which way the refresh resizes tables the receiver already owned
			capc := "recv_tables:none"
			if !rc.zero && rc.pre {
				switch {
				case logn < rc.logn:
					capc = "recv_tables:larger_than_decoded"
				case logn == rc.logn:
					capc = "recv_tables:same_size_as_decoded"
				default:
					capc = "recv_tables:smaller_than_decoded"
				}
				if !pre {
					capc += "(decoded_without_tables)"
				}
			}
			// truncation at every offset must be an error (through the same kind of reader)
			for cut := 0; cut < len(enc); cut++ {
				d3 := x.ZeroDomain()
				if _, err := d3.ReadFrom(mkReader(t, kind, enc[:cut])); err == nil {
					t.Fatalf("%s: ReadFrom accepted an encoding truncated to %d of %d bytes", cfgs, cut, len(enc))
				}
			}
			sc := "shift=default"
			if sh != nil {
				sc = "shift=custom"
			}
			rep.Case(test, fmt.Sprintf("%s %s#%s", cfgs, vcls, hashVals(in)), kind != "whole" || into != "zero",
				"readfrom_into:"+into, capc, "reader="+kind, fmt.Sprintf("n=2^%d", logn), "precompute="+onoff(pre), sc, fmt.Sprintf("trailing=%d", trailing), "truncation:every_offset")
		})
	})
}

// TestC10_Regress_F6 (rapid-free): Domain.ReadFrom must fill each element with io.ReadFull semantics; with a
// bare r.Read a reader that returns fewer bytes than asked for yields an error or a silently wrong domain.
func TestC10_Regress_F6(t *testing.T) {
	forFFTs(t, func(t *testing.T, x inst.FFT) {
		d := x.NewDomain(8, inst.DomainOpt{})
		var w bytes.Buffer
		if _, err := d.WriteTo(&w); err != nil {
			t.Fatal(err)
		}
		for _, k := range []struct {
			name string
			r    io.Reader
		}{{"OneByteReader", iotest.OneByteReader(bytes.NewReader(w.Bytes()))}, {"HalfReader", iotest.HalfReader(bytes.NewReader(w.Bytes()))}} {
			d2 := x.ZeroDomain()
			n, err := d2.ReadFrom(k.r)
			if err != nil {
				t.Fatalf("%s: Domain.ReadFrom through iotest.%s: %v", x.Name(), k.name, err)
			}
			if n != int64(w.Len()) {
				t.Fatalf("%s: Domain.ReadFrom through iotest.%s read %d of %d bytes", x.Name(), k.name, n, w.Len())
			}
			if msg := sameFields(x, d, d2); msg != "" {
				t.Fatalf("%s: Domain.ReadFrom through iotest.%s restored a different domain: %s", x.Name(), k.name, msg)
			}
		}
		rep.Case("C10_Regress_F6/"+x.Name(), x.Name()+" F6 short-read readers", true, "reader=onebyte", "reader=half")
	})
}

// TestC10_Regress_F6b (rapid-free): ReadFrom of a domain serialised WithoutPrecompute into a receiver that holds
// tables (a used domain) must not leave those tables behind Twiddles()/CosetTable(): the decoded domain "was created
// with the WithoutPrecompute option", the accessors document an error, and the stale tables belong to another domain.
func TestC10_Regress_F6b(t *testing.T) {
	forFFTs(t, func(t *testing.T, x inst.FFT) {
		src := x.NewDomain(16, inst.DomainOpt{WithoutPrecompute: true})
		var w bytes.Buffer
		if _, err := src.WriteTo(&w); err != nil {
			t.Fatal(err)
		}
		recv := x.NewDomain(4, inst.DomainOpt{})
		if _, err := recv.ReadFrom(bytes.NewReader(w.Bytes())); err != nil {
			t.Fatal(err)
		}
		if msg := sameFields(x, src, recv); msg != "" {
			t.Fatalf("%s: %s", x.Name(), msg)
		}
		if msg := sameTables(x, src, recv); msg != "" {
			t.Fatalf("%s: domain of size 16 (no precompute) decoded into a used domain of size 4: %s", x.Name(), msg)
		}
		rep.Case("C10_Regress_F6b/"+x.Name(), x.Name()+" F6b stale tables after ReadFrom", true, "readfrom_into:other_size")
	})
}
