package c10

import (
	"bytes"
	"fmt"
	"io"
	"math/big"
	"testing"
	"testing/iotest"

	"pgregory.net/rapid"

	"verif/harness/internal/inst"
	"verif/harness/internal/rep"
)

// chunkReader returns the data in chunks of the given sizes (cyclically), never more than asked for.
type chunkReader struct {
	data   []byte
	sizes  []int
	k, pos int
}

func (c *chunkReader) Read(p []byte) (int, error) {
	if c.pos >= len(c.data) {
		return 0, io.EOF
	}
	n := c.sizes[c.k%len(c.sizes)]
	c.k++
	if n > len(p) {
		n = len(p)
	}
	if n > len(c.data)-c.pos {
		n = len(c.data) - c.pos
	}
	copy(p, c.data[c.pos:c.pos+n])
	c.pos += n
	return n, nil
}

var readerKinds = []string{"whole", "onebyte", "half", "dataerr", "chunks", "onebyte+dataerr"}

func mkReader(t *rapid.T, kind string, b []byte) io.Reader {
	switch kind {
	case "whole":
		return bytes.NewReader(b)
	case "onebyte":
		return iotest.OneByteReader(bytes.NewReader(b))
	case "half":
		return iotest.HalfReader(bytes.NewReader(b))
	case "dataerr":
		return iotest.DataErrReader(bytes.NewReader(b))
	case "onebyte+dataerr":
		return iotest.DataErrReader(iotest.OneByteReader(bytes.NewReader(b)))
	default:
		sizes := rapid.SliceOfN(rapid.IntRange(1, 70), 1, 12).Draw(t, "chunks")
		return &chunkReader{data: b, sizes: sizes}
	}
}

func sameFields(x inst.FFT, a, b inst.Domain) string {
	if a.Cardinality() != b.Cardinality() {
		return fmt.Sprintf("Cardinality %d != %d", b.Cardinality(), a.Cardinality())
	}
	for _, p := range []struct {
		n    string
		u, v inst.E
	}{{"CardinalityInv", a.CardinalityInv(), b.CardinalityInv()}, {"Generator", a.Generator(), b.Generator()},
		{"GeneratorInv", a.GeneratorInv(), b.GeneratorInv()}, {"FrMultiplicativeGen", a.FrMultiplicativeGen(), b.FrMultiplicativeGen()},
		{"FrMultiplicativeGenInv", a.FrMultiplicativeGenInv(), b.FrMultiplicativeGenInv()}} {
		if !p.u.Equal(p.v) {
			return fmt.Sprintf("%s: restored %s, original %s", p.n, p.v.Big(), p.u.Big())
		}
	}
	return ""
}

// sameBehaviour runs every (direction, decimation, coset) transform on both domains with the same input.
func sameBehaviour(x inst.FFT, a, b inst.Domain, in inst.Vec) string {
	for _, inverse := range []bool{false, true} {
		for _, dec := range []inst.Decimation{inst.DIT, inst.DIF} {
			for _, coset := range []bool{false, true} {
				u, v := in.Clone(), in.Clone()
				o := inst.FFTOpt{Coset: coset, NbTasks: 3}
				if inverse {
					a.FFTInverse(u, dec, o)
					b.FFTInverse(v, dec, o)
				} else {
					a.FFT(u, dec, o)
					b.FFT(v, dec, o)
				}
				if i := firstDiff(x, v, u); i >= 0 {
					return fmt.Sprintf("inverse=%v %s coset=%v: output %d differs: restored %s, original %s", inverse, dec, coset, i, v.At(i).Big(), u.At(i).Big())
				}
			}
		}
	}
	_, e1 := a.Twiddles()
	_, e2 := b.Twiddles()
	if (e1 == nil) != (e2 == nil) {
		return fmt.Sprintf("precomputed tables present: original %v, restored %v", e1 == nil, e2 == nil)
	}
	ca, e1 := a.CosetTable()
	cb, e2 := b.CosetTable()
	if (e1 == nil) != (e2 == nil) {
		return fmt.Sprintf("coset table present: original %v, restored %v", e1 == nil, e2 == nil)
	}
	if e1 == nil {
		if ca.Len() != cb.Len() {
			return "coset table length differs"
		}
		if i := firstDiff(x, cb, ca); i >= 0 {
			return fmt.Sprintf("coset table entry %d differs", i)
		}
	}
	return ""
}

// TestC10_DomainIO: WriteTo → ReadFrom through every reader chunking restores a behaviourally identical
// domain; the byte counts are the encoding length; every strict prefix of the encoding is rejected.
func TestC10_DomainIO(t *testing.T) {
	forFFTs(t, func(t *testing.T, x inst.FFT) {
		test := "C10_DomainIO/" + x.Name()
		f := x.F()
		rapid.Check(t, func(t *rapid.T) {
			logn := rapid.OneOf(rapid.IntRange(0, 6), rapid.IntRange(0, 10)).Draw(t, "logn")
			n := 1 << uint(logn)
			pre := rapid.Bool().Draw(t, "precompute")
			sh := drawShift(t, f)
			cd := newChecked(t, x, logn, pre, sh)
			var w bytes.Buffer
			wn, err := cd.d.WriteTo(&w)
			if err != nil {
				t.Fatalf("%s: WriteTo: %v", x.Name(), err)
			}
			enc := w.Bytes()
			if wantLen := 8 + 5*f.Bytes() + 1; len(enc) != wantLen || wn != int64(wantLen) {
				t.Fatalf("%s: WriteTo wrote %d bytes and reported %d; the documented layout (Cardinality, 5 elements, flag) has %d", x.Name(), len(enc), wn, wantLen)
			}
			kind := rapid.SampledFrom(readerKinds).Draw(t, "reader")
			trailing := rapid.SampledFrom([]int{0, 0, 1, 40}).Draw(t, "trailing")
			stream := append(append([]byte{}, enc...), bytes.Repeat([]byte{0xa5}, trailing)...)
			d2 := x.ZeroDomain()
			rn, err := d2.ReadFrom(mkReader(t, kind, stream))
			cfgs := fmt.Sprintf("%s Domain(n=2^%d precompute=%s shift=%v) reader=%s trailing=%d", x.Name(), logn, onoff(pre), sh, kind, trailing)
			if err != nil {
				t.Fatalf("%s: ReadFrom of a complete encoding failed: %v", cfgs, err)
			}
			if rn != int64(len(enc)) {
				t.Fatalf("%s: ReadFrom reported %d bytes, the encoding has %d", cfgs, rn, len(enc))
			}
			if msg := sameFields(x, cd.d, d2); msg != "" {
				t.Fatalf("%s: restored domain differs: %s", cfgs, msg)
			}
			in, vcls := drawVector(t, f, n)
			if msg := sameBehaviour(x, cd.d, d2, x.VecFromBig(in)); msg != "" {
				t.Fatalf("%s: restored domain behaves differently: %s", cfgs, msg)
			}
			// truncation at every offset must be an error (through the same kind of reader)
			for cut := 0; cut < len(enc); cut++ {
				d3 := x.ZeroDomain()
				if _, err := d3.ReadFrom(mkReader(t, kind, enc[:cut])); err == nil {
					t.Fatalf("%s: ReadFrom accepted an encoding truncated to %d of %d bytes", cfgs, cut, len(enc))
				}
			}
			sc := "shift=default"
			if sh != nil {
				sc = "shift=custom"
			}
			rep.Case(test, fmt.Sprintf("%s %s#%s", cfgs, vcls, hashVals(in)), kind != "whole",
				"reader="+kind, fmt.Sprintf("n=2^%d", logn), "precompute="+onoff(pre), sc, fmt.Sprintf("trailing=%d", trailing), "truncation:every_offset")
		})
	})
}

// TestC10_Regress_F6 (rapid-free): Domain.ReadFrom must fill each element with io.ReadFull semantics; with a
// bare r.Read a reader that returns fewer bytes than asked for yields an error or a silently wrong domain.
func TestC10_Regress_F6(t *testing.T) {
	forFFTs(t, func(t *testing.T, x inst.FFT) {
		d := x.NewDomain(8, inst.DomainOpt{})
		var w bytes.Buffer
		if _, err := d.WriteTo(&w); err != nil {
			t.Fatal(err)
		}
		for _, k := range []struct {
			name string
			r    io.Reader
		}{{"OneByteReader", iotest.OneByteReader(bytes.NewReader(w.Bytes()))}, {"HalfReader", iotest.HalfReader(bytes.NewReader(w.Bytes()))}} {
			d2 := x.ZeroDomain()
			n, err := d2.ReadFrom(k.r)
			if err != nil {
				t.Fatalf("%s: Domain.ReadFrom through iotest.%s: %v", x.Name(), k.name, err)
			}
			if n != int64(w.Len()) {
				t.Fatalf("%s: Domain.ReadFrom through iotest.%s read %d of %d bytes", x.Name(), k.name, n, w.Len())
			}
			if msg := sameFields(x, d, d2); msg != "" {
				t.Fatalf("%s: Domain.ReadFrom through iotest.%s restored a different domain: %s", x.Name(), k.name, msg)
			}
		}
		rep.Case("C10_Regress_F6/"+x.Name(), x.Name()+" F6 short-read readers", true, "reader=onebyte", "reader=half")
	})
}

var _ = big.NewInt
