package c10

import (
	"fmt"
	"math/big"
	"testing"

	"pgregory.net/rapid"

	"verif/harness/internal/inst"
	"verif/harness/internal/ref"
	"verif/harness/internal/rep"
)

// smallPrimeFactors returns the prime factors < bound of m (trial division) and the cofactor left.
func smallPrimeFactors(m *big.Int, bound int64) ([]*big.Int, *big.Int) {
	m = new(big.Int).Set(m)
	var ps []*big.Int
	r := new(big.Int)
	for p := int64(2); p < bound; p++ {
		bp := big.NewInt(p)
		if r.Mod(m, bp).Sign() != 0 {
			continue
		}
		ps = append(ps, bp)
		for r.Mod(m, bp).Sign() == 0 {
			m.Div(m, bp)
		}
		if m.Cmp(big.NewInt(1)) == 0 {
			break
		}
	}
	return ps, m
}

// TestC10_Generator: fr.Generator(m) and fft.Generator(m) return an element of exact order
// NextPowerOfTwo(m) for every power of two up to the two-adicity of the field (computed by the reference from
// q), and the documented error ("m is too big: the required root of unity does not exist") exactly beyond it.
// GeneratorFullMultiplicativeGroup() is checked against the necessary conditions of "generator of F*":
// g^((q-1)/p) != 1 for 2 and every small prime factor p of q-1 (complete for the 31/64-bit fields).
func TestC10_Generator(t *testing.T) {
	forFFTs(t, func(t *testing.T, x inst.FFT) {
		test := "C10_Generator/" + x.Name()
		f := x.F()
		q := f.Q()
		ta := ref.TwoAdicity(q)
		R := ref.NewFp(q)
		for k := 0; k <= 63; k++ {
			m := uint64(1) << uint(k)
			g1, err1 := x.FieldGenerator(m)
			g2, err2 := x.Generator(m)
			if (err1 == nil) != (err2 == nil) {
				t.Fatalf("%s: Generator(2^%d): field package error %v, fft package error %v", x.Name(), k, err1, err2)
			}
			if k > ta {
				if err1 == nil {
					t.Fatalf("%s: Generator(2^%d) returned %s without error although 2^%d does not divide q-1 (two-adicity %d)", x.Name(), k, g1.Big(), k, ta)
				}
				rep.Case(test, fmt.Sprintf("%s Generator(2^%d)", x.Name(), k), true, "generator:error_beyond_two_adicity")
				continue
			}
			if err1 != nil {
				t.Fatalf("%s: Generator(2^%d) failed (%v) although a root of unity of that order exists (two-adicity %d)", x.Name(), k, err1, ta)
			}
			if !g1.Equal(g2) {
				t.Fatalf("%s: Generator(2^%d): field package %s != fft package %s", x.Name(), k, g1.Big(), g2.Big())
			}
			if !ref.HasOrderPow2(q, g1.Big(), k) {
				t.Fatalf("%s: Generator(2^%d) = %s does not have order exactly 2^%d", x.Name(), k, g1.Big(), k)
			}
			cls := "generator:order_ok"
			if k == ta {
				cls = "generator:order_ok_at_two_adicity"
			}
			rep.Case(test, fmt.Sprintf("%s Generator(2^%d)", x.Name(), k), true, cls)
		}
		// multiplicative generator
		g := x.GeneratorFullMultiplicativeGroup().Big()
		qm1 := new(big.Int).Sub(q, big.NewInt(1))
		ps, cof := smallPrimeFactors(qm1, 1<<17)
		for _, p := range ps {
			if R.Exp(g, new(big.Int).Div(qm1, p)).Cmp(big.NewInt(1)) == 0 {
				t.Fatalf("%s: GeneratorFullMultiplicativeGroup() = %s has g^((q-1)/%s) = 1: not a generator of F*", x.Name(), g, p)
			}
		}
		if g.Sign() == 0 || R.Exp(g, qm1).Cmp(big.NewInt(1)) != 0 {
			t.Fatalf("%s: GeneratorFullMultiplicativeGroup() = %s is not a unit", x.Name(), g)
		}
		complete := cof.Cmp(big.NewInt(1)) == 0
		rep.Case(test, fmt.Sprintf("%s GeneratorFullMultiplicativeGroup", x.Name()), true, fmt.Sprintf("fullgen:checked_small_primes(complete=%v)", complete))
		if !complete {
			rep.Note(test, "GeneratorFullMultiplicativeGroup of the curve scalar fields is validated only against the prime factors < 2^17 of q-1 (q-1 is not factored); what the transforms need (s^n != 1) is validated per domain")
		}

		// arbitrary m: Generator(m) is the generator for NextPowerOfTwo(m); NewDomain(m) has that cardinality
		rapid.Check(t, func(t *rapid.T) {
			k := rapid.IntRange(0, ta).Draw(t, "k")
			var m uint64
			if k == 0 {
				m = 1
			} else {
				lo, hi := uint64(1)<<uint(k-1)+1, uint64(1)<<uint(k)
				near := hi - 1 // largest non-power-of-two of the class (when the class has one)
				if near < lo {
					near = lo
				}
				m = rapid.OneOf(rapid.Uint64Range(lo, hi), rapid.SampledFrom([]uint64{lo, hi, near})).Draw(t, "m")
			}
			gm, err := x.FieldGenerator(m)
			if err != nil {
				t.Fatalf("%s: Generator(%d) failed: %v", x.Name(), m, err)
			}
			if !ref.HasOrderPow2(q, gm.Big(), k) {
				t.Fatalf("%s: Generator(%d) = %s does not have order 2^%d", x.Name(), m, gm.Big(), k)
			}
			cls := []string{"generator:arbitrary_m"}
			if k <= 12 && m >= 1 {
				d := x.NewDomain(m, inst.DomainOpt{WithoutPrecompute: rapid.Bool().Draw(t, "nopre")})
				if d.Cardinality() != uint64(1)<<uint(k) {
					t.Fatalf("%s: NewDomain(%d).Cardinality = %d, want the next power of two 2^%d", x.Name(), m, d.Cardinality(), k)
				}
				validate(t, x, d, uint64(1)<<uint(k), nil)
				cls = append(cls, "newdomain:arbitrary_m")
			}
			rep.Case(test, fmt.Sprintf("%s Generator(%d)", x.Name(), m), m&(m-1) != 0, cls...)
		})
	})
}
