// Package c10: FFT equals the discrete Fourier transform for every domain, option and task count.
//
// Orderings asserted (from the doc comments of Domain.FFT / Domain.FFTInverse):
//
//	"if decimation == DIT (decimation in time), the input must be in bit-reversed order
//	 if decimation == DIF (decimation in frequency), the output will be in bit-reversed order"
//
// and OnCoset: "FFT(a) returns the evaluation of a on a coset" (the coset s·<ω>, s = FrMultiplicativeGen,
// WithShift "sets the FrMultiplicativeGen of the domain"). The reference (ref.DFT) works in natural order on
// both sides; this file does the permutations with the reference permutation, never with fft.BitReverse.
package c10

import (
	"fmt"
	"hash/fnv"
	"math/big"
	"os"
	"regexp"
	"runtime"
	"strconv"
	"testing"

	"github.com/consensys/gnark-crypto/utils/cpu"
	"pgregory.net/rapid"

	"verif/harness/internal/gen"
	"verif/harness/internal/inst"
	"verif/harness/internal/ref"
	"verif/harness/internal/rep"
)

func TestMain(m *testing.M) { rep.Main(m) }

func selected(name string) bool {
	p := os.Getenv("VERIF_INST")
	if p == "" {
		return true
	}
	ok, _ := regexp.MatchString(p, name)
	return ok
}

// variant names the CPU-path configuration this process was started in by the job table (conf/c10.py):
// "default", "noavx512" (GODEBUG=cpu.avx512=off), "noadx" (GODEBUG=cpu.adx=off), "purego" (-tags purego).
func variant() string {
	if v := os.Getenv("VERIF_C10_VARIANT"); v != "" {
		return v
	}
	return "default"
}

// tname builds the evidence test label; non-default configurations are kept apart.
func tname(base string, x inst.FFT) string {
	if v := variant(); v != "default" {
		return base + "[" + v + "]/" + x.Name()
	}
	return base + "/" + x.Name()
}

// checkVariant makes a variant run non-vacuous: the library's feature switches must be in the announced state.
func checkVariant(t *testing.T) {
	adx, avx := cpu.SupportADX, cpu.SupportAVX512
	switch variant() {
	case "noavx512":
		if !adx || avx {
			t.Fatalf("variant noavx512 announced but utils/cpu reports ADX=%v AVX512=%v", adx, avx)
		}
	case "noadx", "purego":
		if adx || avx {
			t.Fatalf("variant %s announced but utils/cpu reports ADX=%v AVX512=%v", variant(), adx, avx)
		}
	}
}

func forFFTs(t *testing.T, body func(t *testing.T, x inst.FFT)) {
	checkVariant(t)
	for _, x := range inst.FFTs() {
		if !selected(x.Name()) {
			continue
		}
		x := x
		t.Run(x.Name(), func(t *testing.T) { body(t, x) })
	}
}

func spec(f inst.Field) gen.FieldSpec {
	return gen.FieldSpec{Q: f.Q(), NLimbs: f.NLimbs(), LimbBits: f.LimbBits()}
}

// fataler is the common part of *testing.T and *rapid.T.
type fataler interface {
	Fatalf(format string, args ...any)
	Helper()
}

// taskList is the nbTasks axis of the option matrix.
var taskList = []int{1, 2, 3, 5, 8, 16, 17, 64, 512}

// cfg is one point of the option matrix.
type cfg struct {
	logn    int
	dec     inst.Decimation
	coset   bool
	pre     bool
	custom  bool // custom shift (WithShift) instead of the default
	tasks   int  // 0: option not passed (library default runtime.NumCPU())
	inverse bool
}

func onoff(b bool) string {
	if b {
		return "on"
	}
	return "off"
}

func (c cfg) String() string {
	dir, sh := "FFT", "default"
	if c.inverse {
		dir = "FFTInverse"
	}
	if c.custom {
		sh = "custom"
	}
	return fmt.Sprintf("%s n=2^%d %s coset=%s precompute=%s shift=%s nbTasks=%d", dir, c.logn, c.dec, onoff(c.coset), onoff(c.pre), sh, c.tasks)
}

func hasKernel32(x inst.FFT) bool { return x.Name() != "koalabear" && x.Name() != "babybear" }

// kernel says which unrolled kernel the recursion reaches (label only): a sub-transform of size 256
// (or 32 where the package has that kernel) at a stage >= twiddlesStartStage (0 with tables, 3 without).
func (c cfg) kernel(x inst.FFT) string {
	start := 0
	if !c.pre {
		start = 3
	}
	if c.logn >= 8 && c.logn-8 >= start {
		return "kernel=256"
	}
	if hasKernel32(x) && c.logn >= 5 && c.logn-5 >= start {
		return "kernel=32"
	}
	return "kernel=none"
}

// nontrivial is the DESIGN C10 rule: n >= 32 with (coset or no-precompute or nbTasks not in {1,16} or an
// unrolled kernel fires).
func (c cfg) nontrivial(x inst.FFT) bool {
	if c.logn < 5 {
		return false
	}
	e := c.effTasks()
	return c.coset || !c.pre || (e != 1 && e != 16) || c.kernel(x) != "kernel=none"
}

// effTasks is the task count the library ends up with: the default is runtime.NumCPU(), and WithNbTasks
// clamps to 1..512.
func (c cfg) effTasks() int {
	switch {
	case c.tasks == 0:
		return runtime.NumCPU()
	case c.tasks < 1:
		return 1
	case c.tasks > 512:
		return 512
	}
	return c.tasks
}

func (c cfg) classes(x inst.FFT) []string {
	dir, sh := "dir=fwd", "shift=default"
	if c.inverse {
		dir = "dir=inv"
	}
	if c.custom {
		sh = "shift=custom"
	}
	tk := "nbTasks=other(1..512)"
	switch {
	case c.tasks == 0:
		tk = "nbTasks=default"
	case c.tasks < 1 || c.tasks > 512:
		tk = "nbTasks=outside(clamped)"
	default:
		for _, v := range append([]int{}, taskList...) {
			if v == c.tasks {
				tk = "nbTasks=" + strconv.Itoa(c.tasks)
			}
		}
	}
	return []string{fmt.Sprintf("n=2^%d", c.logn), "dec=" + c.dec.String(), "coset=" + onoff(c.coset),
		"precompute=" + onoff(c.pre), tk, sh, dir, c.kernel(x), "variant=" + variant()}
}

// matrixShift is the fixed custom shift of the deterministic option matrix: an arbitrary element that is
// neither small nor special (the rapid properties draw other shifts).
func matrixShift(f inst.Field) *big.Int {
	s, _ := new(big.Int).SetString("123456789abcdef0fedcba9876543210f0e1d2c3b4a5968778695a4b3c2d1e0f13579bdf02468ace", 16)
	s.Mod(s, f.Q())
	if s.Sign() == 0 {
		s.SetInt64(7)
	}
	return s
}

// checkedDomain is a library domain together with its reference description, built only after the
// exported fields have been validated by the reference.
type checkedDomain struct {
	d     inst.Domain
	R     *ref.DFT
	shift *big.Int // FrMultiplicativeGen
	perm  []int
}

// newChecked builds the library domain and validates, with the reference, everything a DFT is defined
// relative to: Cardinality = n, Generator of exact order n, GeneratorInv, CardinalityInv, shift and its inverse.
func newChecked(t fataler, x inst.FFT, logn int, pre bool, shift *big.Int) *checkedDomain {
	t.Helper()
	f := x.F()
	n := uint64(1) << uint(logn)
	o := inst.DomainOpt{WithoutPrecompute: !pre}
	if shift != nil {
		o.Shift = f.FromBig(shift)
	}
	d := x.NewDomain(n, o)
	return validate(t, x, d, n, shift)
}

func validate(t fataler, x inst.FFT, d inst.Domain, n uint64, shift *big.Int) *checkedDomain {
	t.Helper()
	f := x.F()
	if d.Cardinality() != n {
		t.Fatalf("%s: NewDomain(%d).Cardinality = %d", x.Name(), n, d.Cardinality())
	}
	R, err := ref.NewDFT(f.Q(), n, d.Generator().Big())
	if err != nil {
		t.Fatalf("%s: domain of size %d: Generator rejected by the reference: %v", x.Name(), n, err)
	}
	if err := R.CheckInverses(d.GeneratorInv().Big(), d.CardinalityInv().Big()); err != nil {
		t.Fatalf("%s: domain of size %d: %v", x.Name(), n, err)
	}
	s := d.FrMultiplicativeGen().Big()
	if shift != nil && s.Cmp(shift) != 0 {
		t.Fatalf("%s: WithShift(%s) but FrMultiplicativeGen = %s", x.Name(), shift, s)
	}
	if shift == nil {
		if g := x.GeneratorFullMultiplicativeGroup().Big(); g.Cmp(s) != 0 {
			t.Fatalf("%s: default FrMultiplicativeGen %s != GeneratorFullMultiplicativeGroup() %s", x.Name(), s, g)
		}
		if s.Sign() == 0 || R.ShiftInSubgroup(s) {
			t.Fatalf("%s: default coset shift %s satisfies s^n = 1 (n=%d): the coset is not disjoint from the domain", x.Name(), s, n)
		}
	}
	if R.F.Mul(s, d.FrMultiplicativeGenInv().Big()).Cmp(big.NewInt(1)) != 0 {
		t.Fatalf("%s: FrMultiplicativeGen*FrMultiplicativeGenInv != 1", x.Name())
	}
	return &checkedDomain{d: d, R: R, shift: s, perm: ref.BitRevPerm(int(n))}
}

// apply runs the library transform described by c on the natural-order vector in (coefficients for the
// forward direction, evaluations for the inverse) and returns the natural-order result. The documented
// ordering is honoured with the reference permutation: DIT gets bit-reversed input, DIF output is
// un-reversed.
func (cd *checkedDomain) apply(x inst.FFT, in inst.Vec, c cfg) inst.Vec {
	n := in.Len()
	buf := x.F().NewVec(n)
	if c.dec == inst.DIT {
		for i := 0; i < n; i++ {
			x.VecSet(buf, i, in, cd.perm[i])
		}
	} else {
		x.VecCopy(buf, in)
	}
	o := inst.FFTOpt{Coset: c.coset, NbTasks: c.tasks}
	if c.inverse {
		cd.d.FFTInverse(buf, c.dec, o)
	} else {
		cd.d.FFT(buf, c.dec, o)
	}
	if c.dec == inst.DIT {
		return buf
	}
	out := x.F().NewVec(n)
	for i := 0; i < n; i++ {
		x.VecSet(out, i, buf, cd.perm[i])
	}
	return out
}

// refShift is the shift the reference must use for c (nil = plain transform).
func (cd *checkedDomain) refShift(c cfg) *big.Int {
	if c.coset {
		return cd.shift
	}
	return nil
}

// ---- deterministic vector expansion (a pure function of rapid-drawn seeds) ----------------------

type sm64 uint64

func (s *sm64) next() uint64 {
	*s += 0x9e3779b97f4a7c15
	z := uint64(*s)
	z = (z ^ (z >> 30)) * 0xbf58476d1ce4e5b9
	z = (z ^ (z >> 27)) * 0x94d049bb133111eb
	return z ^ (z >> 31)
}

func (s *sm64) elem(q *big.Int, words int) *big.Int {
	v := new(big.Int)
	for i := 0; i < words; i++ {
		v.Lsh(v, 64)
		v.Or(v, new(big.Int).SetUint64(s.next()))
	}
	return v.Mod(v, q)
}

func words(f inst.Field) int { return (f.Q().BitLen()+63)/64 + 1 }

// drawVector draws a natural-order vector of n reduced values and names the generator class.
func drawVector(t *rapid.T, f inst.Field, n int) ([]*big.Int, string) {
	s := spec(f)
	q := f.Q()
	kinds := []string{"pool", "prng", "sparse", "const", "mixed"}
	if n <= 16 {
		kinds = append(kinds, "drawn", "drawn")
	}
	kind := rapid.SampledFrom(kinds).Draw(t, "veckind")
	a := make([]*big.Int, n)
	if kind == "drawn" {
		for i := range a {
			a[i], _ = s.Elem(t, "a")
		}
		return a, "vec=" + kind
	}
	k := rapid.IntRange(1, 6).Draw(t, "pool")
	pool := make([]*big.Int, k)
	for i := range pool {
		pool[i], _ = s.Elem(t, "p")
	}
	seed := sm64(rapid.Uint64().Draw(t, "seed"))
	w := words(f)
	switch kind {
	case "pool":
		for i := range a {
			a[i] = pool[seed.next()%uint64(k)]
		}
	case "prng":
		for i := range a {
			a[i] = seed.elem(q, w)
		}
	case "const":
		for i := range a {
			a[i] = pool[0]
		}
	case "sparse":
		for i := range a {
			a[i] = new(big.Int)
		}
		m := rapid.IntRange(1, 4).Draw(t, "nnz")
		for j := 0; j < m; j++ {
			pos := rapid.OneOf(rapid.IntRange(0, n-1), rapid.SampledFrom([]int{0, n - 1, n / 2, (n - 1) / 2})).Draw(t, "pos")
			a[pos] = pool[j%k]
		}
	case "mixed":
		for i := range a {
			if seed.next()%8 == 0 {
				a[i] = pool[seed.next()%uint64(k)]
			} else {
				a[i] = seed.elem(q, w)
			}
		}
	}
	return a, "vec=" + kind
}

// drawShift draws the NewDomain shift: nil (default) or a non-zero custom element.
func drawShift(t *rapid.T, f inst.Field) *big.Int {
	if rapid.Bool().Draw(t, "customShift") {
		v, _ := spec(f).Elem(t, "shift")
		if v.Sign() == 0 {
			v = big.NewInt(1)
		}
		return v
	}
	return nil
}

// drawTasks draws nbTasks: the matrix values, the default (0 = option absent), arbitrary values in range and
// values outside 1..512 (documented as clamped by the option).
func drawTasks(t *rapid.T) int {
	switch rapid.IntRange(0, 9).Draw(t, "taskclass") {
	case 0:
		return 0
	case 1:
		return rapid.IntRange(1, 512).Draw(t, "tasks")
	case 2:
		return rapid.SampledFrom([]int{-1, -1000, 513, 100000}).Draw(t, "tasks")
	default:
		return rapid.SampledFrom(taskList).Draw(t, "tasks")
	}
}

func hashVals(a []*big.Int) string {
	h := fnv.New64a()
	for _, v := range a {
		h.Write(v.Bytes())
		h.Write([]byte{0xff})
	}
	return strconv.FormatUint(h.Sum64(), 16)
}

func firstDiff(x inst.FFT, got inst.Vec, want inst.Vec) int {
	for i := 0; i < got.Len(); i++ {
		if !x.VecEq(got, i, want, i) {
			return i
		}
	}
	return -1
}
