package c06

import (
	"fmt"
	"math/big"
	"reflect"
	"strings"
	"sync"
	"testing"

	"pgregory.net/rapid"

	"verif/harness/internal/gen"
	"verif/harness/internal/inst"
	"verif/harness/internal/ref"
	"verif/harness/internal/reg"
	"verif/harness/internal/rep"
)

// Seeds x0 of the curves, transcribed from the package documentation ("seed x₀=..." in
// ecc/<curve>/<curve>.go), with their sign. Validated below through the documented formula for r.
var seeds = map[string]string{
	"bn254":     "4965661367192848881",
	"bls12-377": "9586122913090633729",
	"bls12-381": "-15132376222941642752",
	"bls24-315": "-3218079743",
	"bls24-317": "3640754176",
	"bw6-761":   "9586122913090633729",
	"bw6-633":   "-3218079743",
}

// c1, c2 of the BW6 final exponentiation, from the comments of Expc1/Expc2.
var bw6c = map[string][2]int64{"bw6-761": {11, 103}, "bw6-633": {-3, 13}}

func bigS(s string) *big.Int {
	v, ok := new(big.Int).SetString(s, 10)
	if !ok {
		panic("bad integer " + s)
	}
	return v
}

func poly(x *big.Int, coefs ...int64) *big.Int { // coefs highest degree first
	r := new(big.Int)
	for _, c := range coefs {
		r.Mul(r, x).Add(r, big.NewInt(c))
	}
	return r
}

// cyclo bundles what the cyclotomic tests need for one curve.
type cyclo struct {
	f     *family
	top   *level
	sx    *ref.Sextic
	seed  *big.Int
	N     *big.Int // order of the cyclotomic subgroup
	gtGen ref.V    // a generator-like element of GT (a library pairing value, validated by the reference)
	small []smallOrd
	exps  map[string]*big.Int // fixed-exponent routines: method name -> exponent
}

type smallOrd struct {
	l *big.Int
	g ref.V
}

var (
	cycMu sync.Mutex
	cycs  = map[string]*cyclo{}
)

func getCyclo(name string) *cyclo {
	cycMu.Lock()
	defer cycMu.Unlock()
	if c, ok := cycs[name]; ok {
		return c
	}
	f := getFamily(name)
	c := &cyclo{f: f, top: f.top(), sx: f.sextic(), seed: bigS(seeds[name])}
	c.N = c.sx.CycloOrder()
	cur := f.curve
	// validate the transcribed seed with the documented parametrisation of r
	x := c.seed
	var r *big.Int
	switch {
	case name == "bn254":
		r = poly(x, 36, 36, 18, 6, 1)
	case strings.HasPrefix(name, "bls12"):
		r = poly(x, 1, 0, -1, 0, 1)
	case strings.HasPrefix(name, "bls24"):
		r = poly(x, 1, 0, 0, 0, -1, 0, 0, 0, 1)
	case name == "bw6-761": // r = p(bls12-377) = (x-1)^2 (x^4-x^2+1)/3 + x
		r = bwR(x, poly(x, 1, 0, -1, 0, 1))
	case name == "bw6-633": // r = p(bls24-315) = (x-1)^2 (x^8-x^4+1)/3 + x
		r = bwR(x, poly(x, 1, 0, 0, 0, -1, 0, 0, 0, 1))
	}
	if r.Cmp(cur.R) != 0 {
		panic("c06: transcribed seed of " + name + " does not reproduce r")
	}
	if new(big.Int).Mod(c.N, cur.R).Sign() != 0 {
		panic("c06: r does not divide the cyclotomic order of " + name)
	}
	// GT element: the library pairing of the generators, validated by the reference
	g1, g2 := cur.G1.FromRef(cur.G1.Gen), cur.G2.FromRef(cur.G2.Gen)
	res := cur.Pkg.F("Pair", reg.SliceOf(cur.G1.AffType(), g1), reg.SliceOf(cur.G2.AffType(), g2))
	if err := reg.Err(res); err != nil {
		panic(err)
	}
	gt := reflect.New(c.top.T)
	gt.Elem().Set(reflect.ValueOf(res[0]))
	c.gtGen = flat(gt.Interface())
	K := c.sx.K
	if !c.sx.IsCyclotomic(c.gtGen) || K.Eq(c.gtGen, K.One()) || !K.Eq(ref.Exp(K, c.gtGen, cur.R), K.One()) {
		panic("c06: library pairing value is not an element of order r of the cyclotomic subgroup")
	}
	// elements of small prime order l | N/r (trial division), as cyclotomic elements outside GT
	h := new(big.Int).Div(c.N, cur.R)
	base := c.sx.EasyPart(denseElem(c.top, 7))
	for l := int64(2); l < 1<<16 && len(c.small) < 3; l++ {
		L := big.NewInt(l)
		if !L.ProbablyPrime(0) || new(big.Int).Mod(h, L).Sign() != 0 {
			continue
		}
		g := ref.Exp(K, base, new(big.Int).Div(c.N, L))
		if !K.Eq(g, K.One()) {
			c.small = append(c.small, smallOrd{L, g})
		}
	}
	// fixed exponents, by method name (see the doc comments quoted in DESIGN/notes)
	one := big.NewInt(1)
	xm1 := new(big.Int).Sub(x, one)
	c.exps = map[string]*big.Int{
		"Expt":              x,
		"ExptHalf":          new(big.Int).Quo(x, big.NewInt(2)),
		"ExptMinus1":        xm1,
		"ExptPlus1":         new(big.Int).Add(x, one),
		"ExptMinus1Square":  new(big.Int).Mul(xm1, xm1),
		"ExptMinus1Squared": new(big.Int).Mul(xm1, xm1),
		"ExptMinus1Div3":    new(big.Int).Quo(xm1, big.NewInt(3)),
		"ExptSquarePlus1":   new(big.Int).Add(new(big.Int).Mul(x, x), one),
	}
	if new(big.Int).Mod(x, big.NewInt(2)).Sign() != 0 {
		delete(c.exps, "ExptHalf")
	}
	if new(big.Int).Mod(xm1, big.NewInt(3)).Sign() != 0 {
		delete(c.exps, "ExptMinus1Div3")
	}
	if cc, ok := bw6c[name]; ok {
		c.exps["Expc1"] = big.NewInt(cc[0])
		c.exps["Expc2"] = big.NewInt(cc[1])
	}
	cycs[name] = c
	return c
}

func bwR(x, phi *big.Int) *big.Int {
	xm1 := new(big.Int).Sub(x, big.NewInt(1))
	r := new(big.Int).Mul(xm1, xm1)
	r.Mul(r, phi)
	r.Quo(r, big.NewInt(3))
	return r.Add(r, x)
}

func denseElem(lv *level, salt int64) ref.V {
	v := make(ref.V, lv.deg())
	for i := range v {
		v[i] = new(big.Int).Exp(big.NewInt(salt+int64(i)), big.NewInt(77), lv.fam.p)
	}
	return v
}

// witness draws a Karabina witness of the given kind (parameter t from the lattice; the first
// t, t+1, ... for which the needed square root exists).
func (c *cyclo) witness(t *rapid.T, kind string) ref.V {
	Fq := c.sx.Fq
	tv := make(ref.V, Fq.Deg())
	for i := range tv {
		tv[i] = c.f.coef(t, "wt")
	}
	for k := 0; k < 200; k++ {
		if y := c.sx.KarabinaWitness(kind, tv); y != nil {
			return y
		}
		tv = Fq.Add(tv, Fq.One())
	}
	panic("c06: no Karabina witness found in 200 consecutive parameters")
}

// genCyclo draws an element of the cyclotomic subgroup together with its class.
func (c *cyclo) genCyclo(t *rapid.T, label string, gtOnly bool) (ref.V, string) {
	K := c.sx.K
	r := c.f.curve.R
	lo := 0
	if gtOnly {
		lo = 6
	}
	switch k := lo + uni(t, 12-lo, label+"cls"); k {
	case 0, 1:
		y, inf := c.top.genElem(t, label+"y")
		if K.IsZero(y) {
			return K.One(), "one"
		}
		return c.sx.EasyPart(y), "easy(" + inf.class + ")"
	case 2:
		return c.witness(t, "g3"), "karabina_g3_zero"
	case 3:
		return c.witness(t, "g5"), "karabina_g5_zero"
	case 4:
		if len(c.small) == 0 {
			return K.One(), "one"
		}
		s := c.small[rapid.IntRange(0, len(c.small)-1).Draw(t, label+"so")]
		e := big.NewInt(int64(rapid.IntRange(1, 5).Draw(t, label+"soe")))
		return ref.Exp(K, s.g, e), "small_order_" + s.l.String()
	case 5:
		// product of a GT element and an element outside GT
		y, _ := c.top.genElem(t, label+"y")
		if K.IsZero(y) {
			y = K.One()
		}
		e := big.NewInt(int64(rapid.IntRange(1, 1000).Draw(t, label+"ge")))
		return K.Mul(c.sx.EasyPart(y), ref.Exp(K, c.gtGen, e)), "easy*gt"
	case 6:
		return K.One(), "one"
	case 7:
		e := big.NewInt(int64(rapid.IntRange(-3, 3).Draw(t, label+"ge")))
		return ref.Exp(K, c.gtGen, e), "gt_small_power"
	case 8:
		e := new(big.Int).Sub(r, big.NewInt(int64(rapid.IntRange(1, 3).Draw(t, label+"ge"))))
		return ref.Exp(K, c.gtGen, e), "gt_power_near_r"
	default:
		e, ec := gen.Int(t, r, r.BitLen()+2, label+"ge")
		return ref.Exp(K, c.gtGen, e), "gt_power:" + ec
	}
}

func forCurves(t *testing.T, body func(t *testing.T, c *cyclo)) {
	for _, n := range inst.PairingNames {
		if !selected(n) {
			continue
		}
		n := n
		t.Run(n, func(t *testing.T) { body(t, getCyclo(n)) })
	}
}

type cycOp struct {
	name   string
	weight int
	run    func(t *rapid.T, c *cyclo, name string)
}

func (c *cyclo) ops() []cycOp {
	T := c.top.T
	var ops []cycOp
	var missing []string
	add := func(name string, w int, run func(t *rapid.T, c *cyclo, name string)) {
		if hasMethod(T, name) {
			ops = append(ops, cycOp{name, w, run})
		} else {
			missing = append(missing, name)
		}
	}
	add("CyclotomicSquare", 6, runCycSquare)
	add("CyclotomicSquareCompressed", 10, runKarabina)
	add("CyclotomicExp", 3, runCycExp)
	add("ExpGLV", 5, runCycExp)
	add("Exp", 1, runCycExp)
	add("InverseUnitary", 3, runCycInverse)
	add("Conjugate", 1, runCycInverse)
	add("IsInSubGroup", 4, runIsInSubGroup)
	add("CompressTorus", 6, runTorus)
	for name := range c.exps {
		if hasMethod(T, name) {
			ops = append(ops, cycOp{name, 2, runFixedExp})
		}
	}
	// stable order (map iteration above)
	sortOps(ops)
	var names []string
	for _, o := range ops {
		names = append(names, o.name)
	}
	rep.Note("C06_Cyclo/"+c.f.name, "fixed-exponent routines are compared with x^e for e derived from the method name and the documented signed seed x0 (Expt = x^x0, ExptHalf = x^(x0/2), ExptMinus1 = x^(x0-1), ...; Expc1/Expc2 from their comments)")
	if c.f.name == "bw6-761" {
		rep.Note("C06_Cyclo/"+c.f.name, "documentation inconsistency (not a functional defect): the numeric values quoted in the comments of bw6-761 ExptMinus1/Expt/ExptPlus1/ExptMinus1Square (t-1 = 9189...983, t = 9189...984, ...) are (x0-1)^2-1, (x0-1)^2, ...; the routines compute x^(x0-1), x^x0, x^(x0+1), x^((x0-1)^2) as their names say")
	}
	rep.Note("C06_Cyclo/"+c.f.name, "cyclotomic-domain methods checked: "+strings.Join(names, " ")+"; absent on this curve: "+strings.Join(missing, " "))
	return ops
}

func sortOps(ops []cycOp) {
	for i := 1; i < len(ops); i++ {
		for j := i; j > 0 && ops[j].name < ops[j-1].name; j-- {
			ops[j], ops[j-1] = ops[j-1], ops[j]
		}
	}
}

func TestC06_Cyclo(t *testing.T) {
	forCurves(t, func(t *testing.T, c *cyclo) {
		ops := c.ops()
		only := onlyOp()
		tot := 0
		for _, o := range ops {
			tot += o.weight
		}
		rapid.Check(t, func(t *rapid.T) {
			k := uni(t, tot, "op")
			var op cycOp
			for _, o := range ops {
				if k < o.weight {
					op = o
					break
				}
				k -= o.weight
			}
			if only != "" && op.name != only {
				t.Skip()
			}
			op.run(t, c, op.name)
		})
	})
}

func (c *cyclo) record(op, k string, classes ...string) {
	rep.Case("C06_Cyclo/"+c.f.name, c.f.name+" "+op+" "+k, true, append([]string{op}, classes...)...)
}

func runCycSquare(t *rapid.T, c *cyclo, name string) {
	xv, cls := c.genCyclo(t, "x", false)
	lv := c.top
	x := lv.new(xv)
	z := lv.poisoned()
	reg.M(z, name, x)
	lv.check(t, "CyclotomicSquare("+cls+" "+ref.String(xv)+")", z, c.sx.K.Mul(xv, xv))
	reg.M(x, name, x)
	lv.check(t, "x.CyclotomicSquare(x) (aliased), "+cls, x, c.sx.K.Mul(xv, xv))
	c.record(name, key(xv), "x:"+cls)
}

// compressedCoords are the four Fq-blocks a Karabina-compressed value carries: g1, g2, g3, g5 =
// blocks 1, 2, 3, 5 of the flat order (C0.B1, C0.B2, C1.B0, C1.B2).
var compressedBlocks = []int{1, 2, 3, 5}

// runKarabina: DecompressKarabina(CyclotomicSquareCompressed(x)) = x^2, in the library's aliased
// calling style and with a separate receiver; inputs include squares roots of the constructed
// witnesses whose square has g3 = 0 or g5 = 0 (the special case of Theorem 3.1).
func runKarabina(t *rapid.T, c *cyclo, name string) {
	lv, K := c.top, c.sx.K
	var xv, sq ref.V
	var cls string
	bd := c.sx.Fq.Deg()
	switch how := uniP(t, 9, "how"); {
	case how <= 3:
		// the compressed coordinates (g1,g2,g3,g5) of a constructed witness y, with the g0/g4 slots
		// holding garbage: exactly what CyclotomicSquareCompressed(sqrt(y)) leaves in a receiver
		// (checked coordinate by coordinate in the other branches); no square root needed
		kind := []string{"g3", "g5"}[how%2]
		y := c.witness(t, kind)
		if how >= 2 {
			// vary the witness inside its class: Frobenius/conjugation keep the zero pattern
			y = c.sx.FrobQ(y)
		}
		d := append(ref.V{}, y...)
		for _, b := range []int{0, 4} {
			for i := 0; i < bd; i++ {
				d[b*bd+i] = big.NewInt(int64(0xbad000 + b*bd + i))
			}
		}
		pat := c.pattern(y)
		if hasMethod(lv.T, "DecompressKarabina") {
			dd := lv.new(d)
			reg.M(dd, "DecompressKarabina", dd)
			lv.check(t, fmt.Sprintf("d.DecompressKarabina(d), d = compressed coordinates of the cyclotomic element y=%s (karabina_%s_zero, g1g2g3g5 = %s)", ref.String(y), kind, pat), dd, y)
			z := lv.poisoned()
			reg.M(z, "DecompressKarabina", lv.new(d))
			lv.check(t, fmt.Sprintf("z.DecompressKarabina(d), z != d, d = compressed coordinates of y=%s (karabina_%s_zero, g1g2g3g5 = %s)", ref.String(y), kind, pat), z, y)
		}
		c.record(name, key(y), "x:compressed_coords_of_karabina_"+kind+"_zero", "compressed_pattern_g1g2g3g5:"+pat)
		return
	case how == 4:
		// x = sqrt(y) for a drawn cyclotomic y (so that y = x^2 is the class of interest)
		if uniP(t, 1, "wit") == 0 {
			kind := []string{"g3", "g5"}[uniP(t, 1, "kind")]
			sq, cls = c.witness(t, kind), "karabina_"+kind+"_zero"
		} else {
			sq, cls = c.genCyclo(t, "y", false)
		}
		h := new(big.Int).Add(c.N, big.NewInt(1))
		xv = ref.Exp(K, sq, h.Rsh(h, 1))
		cls = "sqrt_of:" + cls
	default:
		xv, cls = c.genCyclo(t, "x", false)
		sq = K.Mul(xv, xv)
	}
	x := lv.new(xv)
	// compressed square into a poisoned receiver: the four coordinates must be those of x^2
	d := lv.poisoned()
	reg.M(d, "CyclotomicSquareCompressed", x)
	df := flat(d)
	for _, b := range compressedBlocks {
		if !vecEq(df[b*bd:(b+1)*bd], ref.Red(c.f.naive[0], sq[b*bd:(b+1)*bd])) {
			t.Fatalf("%s: CyclotomicSquareCompressed(%s): coordinate block %d differs from that of x^2", lv.id, ref.String(xv), b)
		}
	}
	pat := c.pattern(sq)
	if hasMethod(lv.T, "DecompressKarabina") {
		d2 := reg.Clone(d)
		// aliased (as every caller in the library does)
		reg.M(d, "DecompressKarabina", d)
		lv.check(t, fmt.Sprintf("d.DecompressKarabina(d), d=CyclotomicSquareCompressed(x), x=%s (%s, g1g2g3g5 of x^2 = %s)", ref.String(xv), cls, pat), d, sq)
		// separate receiver
		z := lv.poisoned()
		reg.M(z, "DecompressKarabina", d2)
		lv.check(t, fmt.Sprintf("z.DecompressKarabina(d) with z != d, d=CyclotomicSquareCompressed(x), x=%s (%s, g1g2g3g5 of x^2 = %s)", ref.String(xv), cls, pat), z, sq)
	}
	c.record(name, key(xv), "x:"+cls, "compressed_pattern_g1g2g3g5:"+pat)
}

// pattern renders which of the compressed coordinates g1,g2,g3,g5 of y vanish.
func (c *cyclo) pattern(y ref.V) string {
	bd := c.sx.Fq.Deg()
	pat := ""
	for _, b := range compressedBlocks {
		if c.sx.Fq.IsZero(y[b*bd : (b+1)*bd]) {
			pat += "0"
		} else {
			pat += "x"
		}
	}
	return pat
}

func runCycExp(t *rapid.T, c *cyclo, name string) {
	lv, K := c.top, c.sx.K
	xv, cls := c.genCyclo(t, "x", name == "ExpGLV") // ExpGLV: "x must be in GT"
	var k *big.Int
	var kc string
	extra := []string{}
	if src := uniP(t, 4, "ksrc"); src <= 1 {
		var g1, g2 string
		k, kc, g1, g2 = c.glvExponent(t, "k")
		extra = append(extra, "glv:"+glvCoarse(g1)+"_"+glvCoarse(g2), "glv_len:"+g1+"_"+g2)
	} else if src == 2 {
		k, kc = wordExponent(t, "k")
		extra = kwClasses(kc)
	} else {
		k, kc = gen.Int(t, c.f.curve.R, lv.expBits(), "k")
	}
	x := lv.new(xv)
	z := lv.poisoned()
	reg.M(z, name, x, k)
	lv.check(t, fmt.Sprintf("%s(%s [%s], %s)", name, ref.String(xv), cls, k), z, ref.Exp(K, xv, k))
	lv.check(t, name+": operand after the call", x, xv)
	c.record(name, key(xv, k), append([]string{"x:" + cls, "k:" + kc}, extra...)...)
}

// glvExponent synthesises k = k1 + k2*lambda (lambda = p mod r, the eigenvalue of the p-power
// Frobenius on GT, derived here from p and r alone) from two halves whose bit lengths are drawn
// independently: 0, 1..63, exactly 64, 65..72 (just over a word), 73..127, at the lattice bound (half of bitlen(r) +-1) and
// above it, with each sign pattern, then as is / reduced mod r / negative representative / plus a
// multiple of r. Endomorphism-accelerated exponentiations scan the two halves word by word, so
// the lopsided splits (one half within one 64-bit word, the other not) are their boundary cases;
// random exponents have two ~bitlen(r)/2-bit halves and never reach them.
func (c *cyclo) glvExponent(t *rapid.T, label string) (k *big.Int, cls, c1, c2 string) {
	r := c.f.curve.R
	lambda := new(big.Int).Mod(c.f.p, r)
	hb := (r.BitLen() + 1) / 2
	half := func(lbl string) (*big.Int, string) {
		var n int
		cat := ""
		switch uni(t, 10, lbl+"cat") {
		case 0:
			return new(big.Int), "zero"
		case 1, 2:
			n, cat = 1+uni(t, 63, lbl+"n"), "short"
			if uniP(t, 2, lbl+"hi") != 0 {
				n = 40 + uni(t, 24, lbl+"n2") // 2^40 .. 2^63
			}
		case 3:
			n, cat = 64, "w64"
		case 4, 5:
			n, cat = 65+uni(t, 8, lbl+"n"), "over" // just over one 64-bit word
		case 6, 7:
			n, cat = 73+uni(t, 55, lbl+"n"), "long"
		case 8:
			n, cat = hb-1+uni(t, 3, lbl+"n"), "bound"
		default:
			n, cat = hb+2+uni(t, 9, lbl+"n"), "above"
		}
		b := rapid.SliceOfN(rapid.Byte(), (n+7)/8, (n+7)/8).Draw(t, lbl+"v")
		v := new(big.Int).SetBytes(b)
		v.And(v, new(big.Int).Sub(new(big.Int).Lsh(big.NewInt(1), uint(n)), big.NewInt(1)))
		v.SetBit(v, n-1, 1)
		if uniP(t, 7, lbl+"ones") == 0 {
			v.Sub(new(big.Int).Lsh(big.NewInt(1), uint(n)), big.NewInt(1)) // 2^n - 1
		}
		return v, cat
	}
	k1, c1 := half(label + "a")
	k2, c2 := half(label + "b")
	sg := uni(t, 4, label+"sign")
	if sg&1 != 0 {
		k1.Neg(k1)
	}
	if sg&2 != 0 {
		k2.Neg(k2)
	}
	k = new(big.Int).Mul(k2, lambda)
	k.Add(k, k1)
	cls = []string{"glv_pp", "glv_np", "glv_pn", "glv_nn"}[sg]
	switch uni(t, 5, label+"red") {
	case 0:
		cls += "_raw"
	case 1, 2:
		k.Mod(k, r)
		cls += "_modr"
	case 3:
		k.Mod(k, r)
		k.Sub(k, r)
		cls += "_negrep"
	default:
		k.Mod(k, r)
		k.Add(k, new(big.Int).Mul(r, big.NewInt(int64(1+uni(t, 3, label+"m")))))
		cls += "_plus_mr"
	}
	return
}

// glvCoarse maps a half-length category to short (fits one 64-bit word), long, or zero.
func glvCoarse(cat string) string {
	switch cat {
	case "zero":
		return "zero"
	case "short", "w64":
		return "short"
	}
	return "long"
}

func runFixedExp(t *rapid.T, c *cyclo, name string) {
	lv, K := c.top, c.sx.K
	var xv ref.V
	var cls string
	if uniP(t, 5, "how") == 0 {
		// x with x^(2^k) = a Karabina witness: a chain of k compressed squarings started at x
		// lands on the special case
		kind := rapid.SampledFrom([]string{"g3", "g5"}).Draw(t, "kind")
		k := rapid.SampledFrom([]int{1, 2, 8, 9, 14, 15, 20, 22, 30, 32, 40, 46, 47, 92}).Draw(t, "k")
		y := c.witness(t, kind)
		inv := new(big.Int).ModInverse(new(big.Int).Lsh(big.NewInt(1), uint(k)), c.N)
		xv = ref.Exp(K, y, inv)
		cls = fmt.Sprintf("2^%d-th_root_of_karabina_%s_zero", k, kind)
	} else {
		xv, cls = c.genCyclo(t, "x", false)
	}
	x := lv.new(xv)
	z := lv.poisoned()
	reg.M(z, name, x)
	e := c.exps[name]
	lv.check(t, fmt.Sprintf("%s(%s [%s]) = x^%s", name, ref.String(xv), cls, e), z, ref.Exp(K, xv, e))
	lv.check(t, name+": operand after the call", x, xv)
	c.record(name, key(xv), "x:"+cls)
}

func runCycInverse(t *rapid.T, c *cyclo, name string) {
	xv, cls := c.genCyclo(t, "x", false)
	z := c.top.poisoned()
	reg.M(z, name, c.top.new(xv))
	c.top.check(t, name+"("+cls+") = inverse", z, c.top.N.Inv(xv))
	c.record(name, key(xv), "x:"+cls)
}

func runIsInSubGroup(t *rapid.T, c *cyclo, name string) {
	K := c.sx.K
	xv, cls := c.genCyclo(t, "x", false)
	want := K.Eq(ref.Exp(K, xv, c.f.curve.R), K.One())
	if got := reg.Bool(c.top.new(xv), name); got != want {
		t.Fatalf("%s: IsInSubGroup(%s [%s]) = %v, but x^r = 1 is %v", c.top.id, ref.String(xv), cls, got, want)
	}
	c.record(name, key(xv), "x:"+cls, fmt.Sprintf("member:%v", want))
}

func runTorus(t *rapid.T, c *cyclo, name string) {
	lv, K := c.top, c.sx.K
	xv, cls := c.genCyclo(t, "x", false)
	if uniP(t, 9, "minus1") == 0 {
		xv, cls = K.Neg(K.One()), "minus_one(excluded)"
	}
	res := reg.M(lv.new(xv), name)
	err := reg.Err(res)
	half := lv.deg() / 2
	c1zero := true
	for _, v := range ref.Red(c.f.naive[0], xv)[half:] {
		if v.Sign() != 0 {
			c1zero = false
		}
	}
	if c1zero {
		// documented: C1 == 0 (only for ±1) is an error
		if err == nil {
			t.Fatalf("%s: CompressTorus(%s) returned no error although C1 = 0", lv.id, ref.String(xv))
		}
		c.record(name, key(xv), "x:"+cls, "excluded_input_error")
		return
	}
	if err != nil {
		t.Fatalf("%s: CompressTorus(%s [%s]) failed: %v", lv.id, ref.String(xv), cls, err)
	}
	cp := reflect.New(reflect.TypeOf(res[0]))
	cp.Elem().Set(reflect.ValueOf(res[0]))
	back := reg.M(cp.Interface(), "DecompressTorus")[0]
	bp := reflect.New(lv.T)
	bp.Elem().Set(reflect.ValueOf(back))
	lv.check(t, "DecompressTorus(CompressTorus(x)), x="+ref.String(xv)+" ["+cls+"]", bp.Interface(), xv)
	c.record(name, key(xv), "x:"+cls)
}

// TestC06_GLVExp concentrates on the exponent domain of the GT exponentiations: for x in GT
// (a small reference power of the validated pairing value) and k synthesised from GLV halves of
// independently drawn lengths, ExpGLV(x,k) = CyclotomicExp(x,k) = Exp(x,k) = x^k by the reference.
func TestC06_GLVExp(t *testing.T) {
	forCurves(t, func(t *testing.T, c *cyclo) {
		lv, K := c.top, c.sx.K
		var methods []string
		for _, m := range []string{"ExpGLV", "CyclotomicExp", "Exp"} {
			if hasMethod(lv.T, m) {
				methods = append(methods, m)
			}
		}
		if !hasMethod(lv.T, "ExpGLV") {
			t.Skip("no ExpGLV on this curve")
		}
		// a few GT elements, computed once
		xs := make([]ref.V, 6)
		for i := range xs {
			xs[i] = ref.Exp(K, c.gtGen, big.NewInt(int64(1+7*i)))
		}
		test := "C06_GLVExp/" + c.f.name
		rapid.Check(t, func(t *rapid.T) {
			xv := xs[uni(t, len(xs), "x")]
			if uniP(t, 3, "conj") == 0 {
				xv = c.sx.Conj(xv)
			}
			k, kc, g1, g2 := c.glvExponent(t, "k")
			classes := []string{"glv:" + glvCoarse(g1) + "_" + glvCoarse(g2), "glv_len:" + g1 + "_" + g2}
			if uniP(t, 3, "ksrc") == 0 {
				k, kc = wordExponent(t, "kw")
				g1, g2 = "word-structured", "-"
				classes = kwClasses(kc)
			}
			want := ref.Exp(K, xv, k)
			// ExpGLV always, one of the other two as well
			ms := []string{"ExpGLV", methods[1+uni(t, len(methods)-1, "other")]}
			for _, m := range ms {
				x := lv.new(xv)
				z := lv.poisoned()
				reg.M(z, m, x, k)
				lv.check(t, fmt.Sprintf("%s(x, k) for x in GT, k = k1 + k2*lambda with |k1| %s, |k2| %s (%s), k=%s, x=%s", m, g1, g2, kc, k, ref.String(xv)), z, want)
			}
			rep.Case(test, c.f.name+" "+key(xv, k), true, append([]string{"ExpGLV", ms[1], "k:" + kc}, classes...)...)
		})
	})
}
