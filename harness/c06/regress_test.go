package c06

import (
	"math/big"
	"testing"

	"verif/harness/internal/inst"
	"verif/harness/internal/ref"
	"verif/harness/internal/reg"
	"verif/harness/internal/rep"
)

// Rapid-free regressions for the defects this check found on the unchanged tree.
//
// F3  E12.DecompressKarabina (bn254, bls12-377, bls12-381) selected the special case of
//     Karabina's Theorem 3.1 by testing C1.B2 (g5) instead of C1.B0 (g3): a cyclotomic element
//     with g3 = 0 (g5 != 0) was divided by 4*g3 = 0 (g4 := 0), one with g5 = 0 (g3 != 0) took the
//     g3 == 0 formula (g4 := 0); both returned a value different from x^2.
// F70 E24/E6(BW6).DecompressKarabina read the g4 slot of its *argument* instead of the receiver,
//     so z.DecompressKarabina(x) with z != x returned a wrong g0 (reported/fixed by the aliasing
//     check as F70; kept here because this check reaches it with every cyclotomic input).

// fixedWitness returns the witness for the first parameter t = (k,1,0,..), k = 2,3,.. that works.
func fixedWitness(sx *ref.Sextic, kind string) ref.V {
	for k := int64(2); k < 200; k++ {
		tv := sx.Fq.Zero()
		tv[0] = big.NewInt(k)
		if len(tv) > 1 {
			tv[1] = big.NewInt(1)
		}
		if y := sx.KarabinaWitness(kind, tv); y != nil {
			return y
		}
	}
	panic("no witness")
}

func TestC06_Regress_KarabinaSpecialCase(t *testing.T) {
	for _, name := range inst.PairingNames {
		if !selected(name) {
			continue
		}
		f := getFamily(name)
		lv := f.top()
		if !hasMethod(lv.T, "DecompressKarabina") {
			continue
		}
		sx := f.sextic()
		bd := sx.Fq.Deg()
		for _, kind := range []string{"g3", "g5"} {
			y := fixedWitness(sx, kind)
			// independent confirmation that y is in the cyclotomic subgroup: y^(q^2-q+1) = 1 by
			// plain exponentiation
			if !sx.K.Eq(ref.Exp(sx.K, y, sx.CycloOrder()), sx.K.One()) {
				t.Fatalf("%s: witness is not cyclotomic", name)
			}
			d := append(ref.V{}, y...)
			for _, b := range []int{0, 4} {
				for i := 0; i < bd; i++ {
					d[b*bd+i] = big.NewInt(int64(77 + i))
				}
			}
			// aliased call (F3)
			dd := lv.new(d)
			reg.M(dd, "DecompressKarabina", dd)
			if got := flat(dd); !vecEq(got, y) {
				t.Errorf("%s: F3: DecompressKarabina of the compressed coordinates of a cyclotomic element with %s = 0 returns\n %s\ninstead of the element\n %s", lv.id, kind, ref.String(got), ref.String(y))
			}
			// full pipeline: x = sqrt(y), d = CyclotomicSquareCompressed(x), d.DecompressKarabina(d) = x^2
			h := new(big.Int).Add(sx.CycloOrder(), big.NewInt(1))
			x := lv.new(ref.Exp(sx.K, y, h.Rsh(h, 1)))
			c := lv.poisoned()
			reg.M(c, "CyclotomicSquareCompressed", x)
			c2 := reg.Clone(c)
			reg.M(c, "DecompressKarabina", c)
			if got := flat(c); !vecEq(got, y) {
				t.Errorf("%s: F3: DecompressKarabina(CyclotomicSquareCompressed(x)) != x^2 when x^2 has %s = 0", lv.id, kind)
			}
			// distinct receiver (F70)
			z := lv.poisoned()
			reg.M(z, "DecompressKarabina", c2)
			if got := flat(z); !vecEq(got, y) {
				t.Errorf("%s: F3/F70: z.DecompressKarabina(d) with a distinct receiver z does not return x^2 (%s = 0 witness)", lv.id, kind)
			}
			rep.Case("C06_Regress", lv.id+" karabina "+kind, true, "karabina_"+kind+"_zero")
		}
		// distinct receiver on a generic cyclotomic element (F70 needs no witness)
		xv := sx.EasyPart(denseElem(lv, 11))
		c := lv.poisoned()
		reg.M(c, "CyclotomicSquareCompressed", lv.new(xv))
		z := lv.poisoned()
		reg.M(z, "DecompressKarabina", c)
		if got := flat(z); !vecEq(got, sx.K.Mul(xv, xv)) {
			t.Errorf("%s: F70: z.DecompressKarabina(CyclotomicSquareCompressed(x)) != x^2 for a generic cyclotomic x when z is a fresh receiver", lv.id)
		}
		rep.Case("C06_Regress", lv.id+" karabina distinct receiver", true, "distinct_receiver")
	}
}

// The special case also sits inside the fixed-seed exponentiations that run on compressed
// squarings: bls12-381's ExptHalf decompresses x^(2^15), so an x whose 2^15-th power is a witness
// made Expt/ExptHalf (hence the final exponentiation on such an input) return a wrong value.
func TestC06_Regress_ExptThroughSpecialCase(t *testing.T) {
	name := "bls12-381"
	if !selected(name) {
		t.Skip("bls12-381 not selected")
	}
	c := getCyclo(name)
	K := c.sx.K
	for _, kind := range []string{"g3", "g5"} {
		y := fixedWitness(c.sx, kind)
		inv := new(big.Int).ModInverse(new(big.Int).Lsh(big.NewInt(1), 15), c.N)
		xv := ref.Exp(K, y, inv)
		for _, m := range []string{"ExptHalf", "Expt"} {
			z := c.top.poisoned()
			reg.M(z, m, c.top.new(xv))
			if got := flat(z); !vecEq(got, ref.Exp(K, xv, c.exps[m])) {
				t.Errorf("bls12-381: %s(x) != x^%s for the cyclotomic x whose 2^15-th power has %s = 0", m, c.exps[m], kind)
			}
			rep.Case("C06_Regress", "bls12-381 "+m+" "+kind, true, "expt_through_special_case")
		}
	}
}
