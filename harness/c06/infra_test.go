// Package c06: extension-field and GT operations agree with generic arithmetic in F_p^k.
//
// The library's tower types share method names but no interfaces and mostly live in internal
// packages; they are reached reflectively (GT -> first struct field -> ... -> base element) and
// every discovered method is dispatched by name to an oracle written on the reference tower
// (harness/internal/ref). Methods without an oracle are listed in the evidence notes.
package c06

import (
	"fmt"
	"math/big"
	"os"
	"reflect"
	"regexp"
	"sort"
	"strings"
	"sync"
	"testing"

	"pgregory.net/rapid"

	"verif/harness/internal/gen"
	"verif/harness/internal/inst"
	"verif/harness/internal/ref"
	"verif/harness/internal/reg"
	"verif/harness/internal/rep"
)

func TestMain(m *testing.M) { rep.Main(m) }

func selected(name string) bool {
	p := os.Getenv("VERIF_INST")
	if p == "" {
		return true
	}
	ok, _ := regexp.MatchString(p, name)
	return ok
}

// family is one tower: the levels of a pairing curve (Fp ... GT) or of a small field (Fr, E2[, E4]).
type family struct {
	name   string
	pkg    *reg.Pkg
	curve  *inst.Curve // nil for the small fields
	spec   gen.FieldSpec
	p      *big.Int
	naive  []ref.Fld // naive[0] = prime field
	names  []string
	types  []reflect.Type // types[0] = base element type
	fastMu sync.Mutex
	fast   []ref.Fld
	sx     *ref.Sextic
}

// level is one extension level of a family.
type level struct {
	fam *family
	i   int
	id  string // "bn254/E12"
	T   reflect.Type
	N   ref.Fld // naive reference (Inv, Sqrt)
}

var (
	famMu sync.Mutex
	fams  = map[string]*family{}
)

var smallTowers = map[string][][]int64{ // non-residues of the successive quadratic steps (DESIGN Appendix A)
	"koalabear":  {{3}, {0, 1}},
	"babybear":   {{11}, {0, 1}},
	"goldilocks": {{7}},
}

// SmallNames lists the small fields that have an extensions package.
var SmallNames = []string{"koalabear", "babybear", "goldilocks"}

func getFamily(name string) *family {
	famMu.Lock()
	defer famMu.Unlock()
	if f, ok := fams[name]; ok {
		return f
	}
	f := &family{name: name}
	var top reflect.Type
	if steps, ok := smallTowers[name]; ok {
		f.pkg = reg.Get("field/" + name + "/extensions")
		fl := inst.FieldByName(name)
		f.p = fl.Q()
		f.spec = gen.FieldSpec{Q: fl.Q(), NLimbs: fl.NLimbs(), LimbBits: fl.LimbBits()}
		f.naive = []ref.Fld{ref.NewPrimeFld(f.p)}
		f.names = []string{"Fr"}
		for k, nr := range steps {
			b := f.naive[len(f.naive)-1]
			f.naive = append(f.naive, ref.NewExt(b, 2, ref.FromInt64s(b, nr...)))
			f.names = append(f.names, []string{"E2", "E4"}[k])
		}
		top = f.pkg.Types[f.names[len(f.names)-1]]
	} else {
		c := inst.GetCurve(name)
		f.curve, f.pkg, f.p = c, c.Pkg, c.P
		fl := inst.FieldByName(name + "/fp")
		f.spec = gen.FieldSpec{Q: fl.Q(), NLimbs: fl.NLimbs(), LimbBits: fl.LimbBits()}
		f.naive = c.Tower
		f.names = c.TowerNm
		top = c.Pkg.Types["GT"]
	}
	// descend through the first struct field down to the base element type
	f.types = make([]reflect.Type, len(f.naive))
	t := top
	for i := len(f.naive) - 1; i >= 0; i-- {
		f.types[i] = t
		if got := reg.Degree(t); got != f.naive[i].Deg() {
			panic(fmt.Sprintf("c06: %s level %s: library type %v has %d coefficients, reference %d", name, f.names[i], t, got, f.naive[i].Deg()))
		}
		if i > 0 {
			t = t.Field(0).Type
		}
	}
	f.fast = make([]ref.Fld, len(f.naive))
	fams[name] = f
	return f
}

// F returns the (tabulated, fast) reference field of level i.
func (f *family) F(i int) ref.Fld {
	f.fastMu.Lock()
	defer f.fastMu.Unlock()
	if f.fast[i] == nil {
		if f.naive[i].Deg() >= 4 {
			f.fast[i] = ref.NewTabFld(f.naive[i])
		} else {
			f.fast[i] = f.naive[i]
		}
	}
	return f.fast[i]
}

// sextic returns the F_q[w]/(w^6-xi) view of the top level (pairing curves only).
func (f *family) sextic() *ref.Sextic {
	n := len(f.naive)
	k := f.F(n - 1)
	f.fastMu.Lock()
	defer f.fastMu.Unlock()
	if f.sx == nil {
		f.sx = ref.NewSextic(f.naive[n-3], f.naive[n-2].(*ref.Ext), f.naive[n-1].(*ref.Ext), k)
	}
	return f.sx
}

func (f *family) levels() []*level {
	var out []*level
	for i := 1; i < len(f.naive); i++ {
		out = append(out, &level{fam: f, i: i, id: f.name + "/" + f.names[i], T: f.types[i], N: f.naive[i]})
	}
	return out
}

func (f *family) top() *level { l := f.levels(); return l[len(l)-1] }

func (lv *level) F() ref.Fld { return lv.fam.F(lv.i) }
func (lv *level) deg() int    { return lv.N.Deg() }

// levelOf returns the index of the level whose library type is t (0 = base element), or -1.
func (f *family) levelOf(t reflect.Type) int {
	for i, ty := range f.types {
		if ty == t {
			return i
		}
	}
	return -1
}

// newAt builds a library value of level i from a coefficient vector.
func (f *family) newAt(i int, v ref.V) interface{} {
	p := reflect.New(f.types[i]).Interface()
	reg.Unflatten(p, ref.Red(f.naive[0], v))
	return p
}

func (lv *level) new(v ref.V) interface{} { return lv.fam.newAt(lv.i, v) }

// poisoned returns a receiver filled with garbage so that a routine that forgets to write a
// coordinate is caught.
func (lv *level) poisoned() interface{} {
	v := make(ref.V, lv.deg())
	for i := range v {
		v[i] = big.NewInt(int64(0xdead00 + i))
	}
	return lv.new(v)
}

func flat(p interface{}) ref.V { return ref.V(reg.Flatten(p)) }

// check asserts that the library value got (a pointer) is exactly want: same value coefficient by
// coefficient, stored canonically (every base-field word sequence is < q: a result that is only
// "right mod q" is not the library's value — Equal, IsZero, Bytes, Cmp all work on the stored
// words), and indistinguishable from a freshly built element through the type's own Equal/IsZero.
func (lv *level) check(t *rapid.T, what string, got interface{}, want ref.V) {
	g := flat(got)
	w := ref.Red(lv.fam.naive[0], want)
	if !vecEq(g, w) {
		t.Fatalf("%s: %s:\n got  %s\n want %s", lv.id, what, ref.String(g), ref.String(w))
	}
	if msg := nonCanonical(reflect.ValueOf(got).Elem(), lv.fam.p, ""); msg != "" {
		t.Fatalf("%s: %s: result is not stored canonically: %s (value %s)", lv.id, what, msg, ref.String(w))
	}
	if reflect.TypeOf(got) == reflect.PtrTo(lv.T) {
		if hasMethod(lv.T, "Equal") && !reg.Bool(got, "Equal", lv.new(w)) {
			t.Fatalf("%s: %s: Equal(result, reference value) is false although all coefficients agree (%s)", lv.id, what, ref.String(w))
		}
		if hasMethod(lv.T, "IsZero") && reg.Bool(got, "IsZero") != lv.N.IsZero(w) {
			t.Fatalf("%s: %s: IsZero(result) = %v for the value %s", lv.id, what, !lv.N.IsZero(w), ref.String(w))
		}
	}
}

// nonCanonical walks a tower value down to the base-field elements (little-endian arrays of
// machine words) and reports the first one whose stored integer is >= q.
func nonCanonical(v reflect.Value, q *big.Int, path string) string {
	switch v.Kind() {
	case reflect.Struct:
		for i := 0; i < v.NumField(); i++ {
			if !v.Type().Field(i).IsExported() {
				continue
			}
			if m := nonCanonical(v.Field(i), q, path+"."+v.Type().Field(i).Name); m != "" {
				return m
			}
		}
	case reflect.Array:
		if k := v.Type().Elem().Kind(); k == reflect.Uint64 || k == reflect.Uint32 {
			bits := uint(v.Type().Elem().Bits())
			x := new(big.Int)
			for i := v.Len() - 1; i >= 0; i-- {
				x.Lsh(x, bits).Or(x, new(big.Int).SetUint64(v.Index(i).Uint()))
			}
			if x.Cmp(q) >= 0 {
				return fmt.Sprintf("coordinate %s holds the words %s >= q", path, x.Text(16))
			}
			return ""
		}
		for i := 0; i < v.Len(); i++ {
			if m := nonCanonical(v.Index(i), q, fmt.Sprintf("%s[%d]", path, i)); m != "" {
				return m
			}
		}
	}
	return ""
}

func vecEq(a, b ref.V) bool {
	if len(a) != len(b) {
		return false
	}
	for i := range a {
		if a[i].Cmp(b[i]) != 0 {
			return false
		}
	}
	return true
}

func key(parts ...interface{}) string {
	var sb strings.Builder
	for i, p := range parts {
		if i > 0 {
			sb.WriteByte(' ')
		}
		switch x := p.(type) {
		case ref.V:
			sb.WriteString(ref.String(x))
		case *big.Int:
			sb.WriteString(x.Text(16))
		default:
			fmt.Fprint(&sb, x)
		}
	}
	return sb.String()
}

// ---- element generator -----------------------------------------------------------------------

// elemInfo describes a generated element for the class histogram / non-triviality rule.
type elemInfo struct {
	class    string
	zeroBlk  bool // at least one zero sub-coordinate at the first-extension granularity
	allZero  bool
	pattern  string
}

func (f *family) coef(t *rapid.T, label string) *big.Int {
	v, _ := f.spec.Elem(t, label)
	return v
}

// genElem draws an element of level lv.
func (lv *level) genElem(t *rapid.T, label string) (ref.V, elemInfo) {
	f := lv.fam
	n := lv.deg()
	v := make(ref.V, n)
	for i := range v {
		v[i] = new(big.Int)
	}
	class := ""
	switch k := uni(t, 20, label+"cls"); {
	case k == 0:
		class = "zero"
	case k == 1:
		class = "one"
		v[0] = big.NewInt(1)
	case k == 2:
		class = "minus_one"
		v[0] = new(big.Int).Sub(f.p, big.NewInt(1))
	case k == 3:
		class = "base_embedded"
		v[0] = f.coef(t, label+"c")
	case k == 4 && lv.i > 1:
		j := 1 + uni(t, lv.i-1, label+"sub")
		class = "subfield_" + f.names[j]
		for i := 0; i < f.naive[j].Deg(); i++ {
			v[i] = f.coef(t, label+"c")
		}
	case k == 5:
		class = "unit_monomial"
		i := uni(t, n, label+"pos")
		v[i] = []*big.Int{big.NewInt(1), new(big.Int).Sub(f.p, big.NewInt(1)), big.NewInt(2)}[uni(t, 3, label+"u")]
	case k <= 12:
		// zero pattern over blocks of a lower level (every subset pattern is reachable)
		j := 0
		if lv.i > 1 {
			j = uni(t, lv.i, label+"gran")
		}
		if lv.i > 1 && j == 0 && rapid.Bool().Draw(t, label+"e2gran") {
			j = 1 // favour the first-extension granularity
		}
		bd := f.naive[j].Deg()
		nb := n / bd
		mask := uint32(uni(t, 1<<uint(nb), label+"mask"))
		class = "mask_" + f.names[j]
		for b := 0; b < nb; b++ {
			if mask>>uint(b)&1 == 1 {
				for i := 0; i < bd; i++ {
					v[b*bd+i] = f.coef(t, label+"c")
				}
			}
		}
	case k <= 15:
		class = "lattice"
		for i := range v {
			v[i] = f.coef(t, label+"c")
		}
	default:
		class = "uniform"
		for i := range v {
			v[i] = f.spec.Uniform(t, label+"c")
		}
	}
	return v, lv.info(v, class)
}

func (lv *level) info(v ref.V, class string) elemInfo {
	f := lv.fam
	bd := f.naive[1].Deg()
	if lv.i == 1 {
		bd = 1
	}
	inf := elemInfo{class: class, allZero: true}
	var sb strings.Builder
	for b := 0; b < len(v)/bd; b++ {
		z := true
		for i := 0; i < bd; i++ {
			if v[b*bd+i].Sign() != 0 {
				z = false
			}
		}
		if z {
			inf.zeroBlk = true
			sb.WriteByte('0')
		} else {
			inf.allZero = false
			sb.WriteByte('x')
		}
	}
	inf.pattern = sb.String()
	return inf
}

// genRelated draws a second operand in a relation with x.
func (lv *level) genRelated(t *rapid.T, x ref.V, label string) (ref.V, string) {
	F := lv.F()
	switch uni(t, 10, label+"rel") {
	case 0:
		return append(ref.V{}, x...), "y=x"
	case 1:
		return F.Neg(x), "y=-x"
	case 2:
		return lv.N.Inv(x), "y=1/x"
	case 3:
		y := F.Sub(F.One(), x)
		return y, "x+y=1"
	default:
		y, inf := lv.genElem(t, label)
		return y, "indep:" + inf.class
	}
}

// ---- method discovery ------------------------------------------------------------------------

// methodsOf lists the exported methods of *T.
func methodsOf(T reflect.Type) []string {
	pt := reflect.PtrTo(T)
	var out []string
	for i := 0; i < pt.NumMethod(); i++ {
		out = append(out, pt.Method(i).Name)
	}
	sort.Strings(out)
	return out
}

func hasMethod(T reflect.Type, name string) bool {
	_, ok := reflect.PtrTo(T).MethodByName(name)
	return ok
}

// sig renders the parameter/result types of a method (receiver excluded), e.g. "(*E2,*E2)*E2".
func sig(T reflect.Type, name string) string {
	m, ok := reflect.PtrTo(T).MethodByName(name)
	if !ok {
		return ""
	}
	mt := m.Type
	var in, out []string
	for i := 1; i < mt.NumIn(); i++ {
		in = append(in, tyName(mt.In(i)))
	}
	for i := 0; i < mt.NumOut(); i++ {
		out = append(out, tyName(mt.Out(i)))
	}
	return "(" + strings.Join(in, ",") + ")" + strings.Join(out, ",")
}

func tyName(t reflect.Type) string {
	switch t.Kind() {
	case reflect.Ptr:
		return "*" + tyName(t.Elem())
	case reflect.Array:
		return fmt.Sprintf("[%d]%s", t.Len(), tyName(t.Elem()))
	case reflect.Slice:
		return "[]" + tyName(t.Elem())
	}
	if t.Name() != "" {
		return t.Name()
	}
	return t.String()
}

// forLevels runs body on every selected level of every family in names.
func forLevels(t *testing.T, names []string, body func(t *testing.T, lv *level)) {
	for _, n := range names {
		f := (*family)(nil)
		for _, nm := range levelNames(n) {
			if !selected(nm) {
				continue
			}
			if f == nil {
				f = getFamily(n)
			}
			for _, lv := range f.levels() {
				if lv.id == nm {
					lv := lv
					t.Run(nm, func(t *testing.T) { body(t, lv) })
				}
			}
		}
	}
}

// levelNames lists the level ids of a family without building its reference tower.
func levelNames(fam string) []string {
	var lv []string
	switch fam {
	case "bn254", "bls12-377", "bls12-381":
		lv = []string{"E2", "E6", "E12"}
	case "bls24-315", "bls24-317":
		lv = []string{"E2", "E4", "E12", "E24"}
	case "bw6-761", "bw6-633":
		lv = []string{"E3", "E6"}
	case "koalabear", "babybear":
		lv = []string{"E2", "E4"}
	case "goldilocks":
		lv = []string{"E2"}
	}
	out := make([]string, len(lv))
	for i, l := range lv {
		out[i] = fam + "/" + l
	}
	return out
}

func allFamilies() []string { return append(append([]string{}, inst.PairingNames...), SmallNames...) }

func envOr(name, def string) string {
	if v := os.Getenv(name); v != "" {
		return v
	}
	return def
}

// uni draws a (nearly) uniform integer in [0,n). rapid's integer generators are deliberately
// biased towards small values (about a third of the draws of a 9-bit range land in the first 8
// values), which would starve most operations and zero patterns; two draws are mixed through
// splitmix64 instead. Still a pure function of rapid draws (replayable, shrinkable).
func uni(t *rapid.T, n int, label string) int {
	if n <= 1 {
		return 0
	}
	a := rapid.Uint64().Draw(t, label)
	b := rapid.Uint64().Draw(t, label+"'")
	x := mix64(a) ^ mix64(b+0x9e3779b97f4a7c15)
	return int(mix64(x) % uint64(n))
}

func mix64(z uint64) uint64 {
	z += 0x9e3779b97f4a7c15
	z = (z ^ (z >> 30)) * 0xbf58476d1ce4e5b9
	z = (z ^ (z >> 27)) * 0x94d049bb133111eb
	return z ^ (z >> 31)
}

// uniP is uni over the closed range [0,max].
func uniP(t *rapid.T, max int, label string) int { return uni(t, max+1, label) }


// wordExponent draws an exponent from the 64-bit word lattice: four words (high..low), every
// zero/non-zero pattern, each non-zero word from {1, 3, 2^63, 2^64-1, random}; so +-2^64,
// +-3*2^64, +-2^128, +-2^192, (random word)*2^64 and exponents whose low / middle / high word
// vanishes all occur. Exponentiation routines look at exponents through Uint64(), Bits(), Bytes()
// and NAF/window recodings, whose boundary cases are the word boundaries; uniformly random
// exponents never have a zero word. The class is "kwords:<pattern high..low>" (0 = zero word).
func wordExponent(t *rapid.T, label string) (*big.Int, string) {
	mask := 1 + uni(t, 15, label+"wm")
	if uniP(t, 2, label+"single") == 0 {
		mask = []int{2, 4, 8}[uni(t, 3, label+"ws")] // a single non-zero word above the low one
	}
	k := new(big.Int)
	pat := ""
	for w := 3; w >= 0; w-- {
		k.Lsh(k, 64)
		if mask>>uint(w)&1 == 0 {
			pat += "0"
			continue
		}
		pat += "x"
		var word uint64
		switch uni(t, 6, label+"wk") {
		case 0:
			word = 1
		case 1:
			word = 3
		case 2:
			word = 1 << 63
		case 3:
			word = ^uint64(0)
		default:
			word = rapid.Uint64().Draw(t, label+"wv") | 1<<uint(uni(t, 64, label+"wb"))
		}
		k.Or(k, new(big.Int).SetUint64(word))
	}
	cls := "kwords:" + pat
	if uniP(t, 2, label+"wneg") == 0 {
		k.Neg(k)
		cls += ",neg"
	}
	return k, cls
}

// kwClasses splits the class string of wordExponent into evidence labels.
func kwClasses(cls string) []string {
	parts := strings.Split(cls, ",")
	out := []string{parts[0]}
	if len(parts) > 1 {
		out = append(out, "kwords_negative")
	}
	return out
}
