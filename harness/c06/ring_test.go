package c06

import (
	"fmt"
	"math/big"
	"reflect"
	"regexp"
	"strconv"
	"strings"
	"sync"
	"testing"

	"pgregory.net/rapid"

	"verif/harness/internal/gen"
	"verif/harness/internal/ref"
	"verif/harness/internal/reg"
	"verif/harness/internal/rep"
)

// ---- oracle tables ---------------------------------------------------------------------------

// nextNR returns the element "MulByNonResidue" multiplies by at level lv: the non-residue that
// defines the next level of the tower (documented as (9,1), (0,1), (1,1), (0,1,0) ... in each
// package), or, at the top level of a small-field tower, the generator (0,1) of the level itself.
func (lv *level) nextNR() ref.V {
	f := lv.fam
	if lv.i+1 < len(f.naive) {
		return f.naive[lv.i+1].(*ref.Ext).NR
	}
	g := lv.N.Zero()
	g[lv.deg()/lv.N.(*ref.Ext).D] = big.NewInt(1)
	return g
}

// involution is x -> x^(p^(deg/2)), the map the library calls Conjugate.
func (lv *level) involution(x ref.V) ref.V {
	if e, ok := lv.N.(*ref.Ext); ok && e.D == 2 {
		return e.Conj(x)
	}
	return ref.Frobenius(lv.F(), x, lv.deg()/2)
}

var reNRPow = regexp.MustCompile(`^MulByNonResidue([0-9])Power([0-9])$`)
var reSparse = regexp.MustCompile(`^MulBy([0-9]+)$`)

// unaryOracle returns the reference function for a method of shape z.Op(x *T) *T, and whether
// the oracle is expensive (exponentiation based).
func (lv *level) unaryOracle(name string) (fn func(x ref.V) ref.V, heavy bool) {
	oracleMu.Lock()
	defer oracleMu.Unlock()
	if o, ok := oracleCache[lv.id+"."+name]; ok {
		return o.fn, o.heavy
	}
	fn, heavy = lv.unaryOracle0(name)
	oracleCache[lv.id+"."+name] = cachedOracle{fn, heavy}
	return
}

type cachedOracle struct {
	fn    func(x ref.V) ref.V
	heavy bool
}

var (
	oracleMu    sync.Mutex
	oracleCache = map[string]cachedOracle{}
)

func (lv *level) unaryOracle0(name string) (fn func(x ref.V) ref.V, heavy bool) {
	F := lv.F()
	frob := func(k int) func(x ref.V) ref.V {
		return func(x ref.V) ref.V { return ref.Frobenius(F, x, k) }
	}
	switch name {
	case "Neg":
		return F.Neg, false
	case "Double":
		return func(x ref.V) ref.V { return F.Add(x, x) }, false
	case "Square":
		return func(x ref.V) ref.V { return F.Mul(x, x) }, false
	case "Inverse":
		return lv.N.Inv, false
	case "Set":
		return func(x ref.V) ref.V { return x }, false
	case "Conjugate":
		_, quad := lv.N.(*ref.Ext)
		quad = quad && lv.N.(*ref.Ext).D == 2
		return lv.involution, !quad
	case "Frobenius":
		return frob(1), true
	case "FrobeniusSquare":
		return frob(2), true
	case "FrobeniusCube":
		return frob(3), true
	case "FrobeniusQuad":
		return frob(4), true
	case "MulByNonResidue":
		nr := lv.nextNR()
		return func(x ref.V) ref.V { return F.Mul(x, nr) }, false
	case "MulByNonResidueInv":
		nri := lv.N.Inv(lv.nextNR())
		return func(x ref.V) ref.V { return F.Mul(x, nri) }, false
	case "MulBybTwistCurveCoeff":
		c := lv.fam.curve
		if c == nil || c.G2 == nil || c.G2.E.F.Deg() != lv.deg() {
			return nil, false
		}
		b := c.G2.E.B
		return func(x ref.V) ref.V { return F.Mul(x, b) }, false
	}
	if m := reNRPow.FindStringSubmatch(name); m != nil {
		// documented: x * NR^(j*(p^k-1)/6)
		k, _ := strconv.Atoi(m[1])
		j, _ := strconv.Atoi(m[2])
		e := new(big.Int).Exp(lv.fam.p, big.NewInt(int64(k)), nil)
		e.Sub(e, big.NewInt(1))
		if new(big.Int).Mod(e, big.NewInt(6)).Sign() != 0 {
			return nil, false
		}
		e.Div(e, big.NewInt(6)).Mul(e, big.NewInt(int64(j)))
		c := ref.Exp(F, lv.nextNR(), e)
		return func(x ref.V) ref.V { return F.Mul(x, c) }, false
	}
	return nil, false
}

// methods that are exercised by other tests of this package (cyclotomic domain) or that have no
// arithmetic content.
var notRingOps = map[string]string{
	"CyclotomicSquare": "cyclo", "CyclotomicSquareCompressed": "cyclo", "DecompressKarabina": "cyclo",
	"CyclotomicExp": "cyclo", "ExpGLV": "cyclo", "IsInSubGroup": "cyclo", "CompressTorus": "cyclo",
	"DecompressTorus": "cyclo", "Expt": "cyclo", "ExptHalf": "cyclo", "Expc1": "cyclo", "Expc2": "cyclo",
	"ExptMinus1": "cyclo", "ExptMinus1Div3": "cyclo", "ExptMinus1Square": "cyclo", "ExptMinus1Squared": "cyclo",
	"ExptPlus1": "cyclo", "ExptSquarePlus1": "cyclo",
	"String": "text", "SetString": "text", "SetRandom": "random", "MustSetRandom": "random",
	"Bits": "no arithmetic content (raw limbs; marked TODO/fixme in the source)",
}

type ringOp struct {
	name   string
	weight int
	run    func(t *rapid.T, lv *level, name string)
}

var (
	opsMu    sync.Mutex
	opsCache = map[string][]ringOp{}
)

// ringOps discovers the methods of the level's type and binds each to its oracle.
func (lv *level) ringOps() []ringOp {
	opsMu.Lock()
	defer opsMu.Unlock()
	if o, ok := opsCache[lv.id]; ok {
		return o
	}
	T := lv.T.Name()
	heavyW := 3 // exponentiation-based oracles (Frobenius maps, Exp, Conjugate of the cubic E12)
	lightW := 8
	if lv.deg() <= 4 {
		heavyW = 6
	}
	var ops []ringOp
	var unknown []string
	add := func(name string, w int, run func(t *rapid.T, lv *level, name string)) {
		ops = append(ops, ringOp{name, w, run})
	}
	for _, name := range methodsOf(lv.T) {
		if _, skip := notRingOps[name]; skip {
			continue
		}
		s := sig(lv.T, name)
		tm := func(tmpl string) bool { return s == strings.ReplaceAll(tmpl, "T", T) }
		switch {
		case name == "Sqrt" && tm("(*T)*T"):
			add(name, lightW, runSqrt)
		case name == "InverseUnitary" && tm("(*T)*T"):
			add(name, lightW/2, runInverseUnitary)
		case name == "MulAssign" && tm("(*T)*T"):
			add(name, lightW, runUnary)
		case tm("(*T)*T"):
			if fn, heavy := lv.unaryOracle(name); fn != nil {
				w := lightW
				if heavy {
					w = heavyW
				}
				add(name, w, runUnary)
			} else {
				unknown = append(unknown, name+s)
			}
		case tm("(*T,*T)*T") && (name == "Add" || name == "Sub" || name == "Mul" || name == "Div"):
			add(name, lightW, runBinary)
		case name == "Exp" && tm("(T,*Int)*T"):
			add(name, heavyW, runExp)
		case name == "Halve" && s == "()":
			add(name, lightW, runHalve)
		case (name == "MulByElement" || name == "MulByE2") && strings.HasPrefix(s, "(*"+T+",*") && strings.HasSuffix(s, ")*"+T):
			add(name, lightW, runMulByLower)
		case reSparse.MatchString(name):
			add(name, lightW, runSparse)
		case (name == "IsZero" || name == "IsOne" || name == "LexicographicallyLargest") && s == "()bool":
			add(name, lightW/2, runPred)
		case name == "Legendre" && s == "()int":
			add(name, lightW/2, runPred)
		case name == "Equal" && tm("(*T)bool"), name == "Cmp" && tm("(*T)int"):
			add(name, lightW/2, runCompare)
		case name == "Select" && tm("(int,*T,*T)*T"):
			add(name, lightW/2, runSelect)
		case name == "SetOne" || name == "SetZero":
			add(name, 1, runSetConst)
		case name == "Clone" && tm("()*T"):
			add(name, 1, runClone)
		case name == "Bytes" || name == "Marshal":
			add(name, lightW/2, runBytes)
		case name == "SetBytes" || name == "Unmarshal":
			// covered by runBytes (round trip)
		default:
			unknown = append(unknown, name+s)
		}
	}
	if len(unknown) > 0 {
		rep.Note("C06_Ring/"+lv.id, "methods without an oracle (not checked): "+strings.Join(unknown, " "))
	}
	var names []string
	for _, o := range ops {
		names = append(names, o.name)
	}
	rep.Note("C06_Ring/"+lv.id, "methods checked: "+strings.Join(names, " "))
	opsCache[lv.id] = ops
	return ops
}

func pickOp(t *rapid.T, ops []ringOp) ringOp {
	tot := 0
	for _, o := range ops {
		tot += o.weight
	}
	k := uni(t, tot, "op")
	for _, o := range ops {
		if k < o.weight {
			return o
		}
		k -= o.weight
	}
	return ops[len(ops)-1]
}

func TestC06_Ring(t *testing.T) {
	forLevels(t, allFamilies(), func(t *testing.T, lv *level) {
		ops := lv.ringOps()
		only := onlyOp()
		rapid.Check(t, func(t *rapid.T) {
			op := pickOp(t, ops)
			if only != "" && op.name != only {
				t.Skip()
			}
			op.run(t, lv, op.name)
		})
	})
}

func onlyOp() string { return envOr("VERIF_OP", "") }

func record(lv *level, op string, k string, nontrivial bool, classes ...string) {
	rep.Case("C06_Ring/"+lv.id, lv.id+" "+op+" "+k, nontrivial, append([]string{op}, classes...)...)
}

// ---- runners ---------------------------------------------------------------------------------

func runUnary(t *rapid.T, lv *level, name string) {
	xv, inf := lv.genElem(t, "x")
	x := lv.new(xv)
	var want ref.V
	if name == "MulAssign" {
		// z.MulAssign(x): z = z*x
		zv, zi := lv.genElem(t, "z")
		z := lv.new(zv)
		reg.M(z, name, x)
		lv.check(t, fmt.Sprintf("(%s).MulAssign(%s)", ref.String(zv), ref.String(xv)), z, lv.F().Mul(zv, xv))
		record(lv, name, key(zv, xv), inf.zeroBlk || zi.zeroBlk, "x:"+inf.class)
		return
	}
	fn, _ := lv.unaryOracle(name)
	want = fn(xv)
	z := lv.poisoned()
	reg.M(z, name, x)
	lv.check(t, fmt.Sprintf("%s(%s)", name, ref.String(xv)), z, want)
	lv.check(t, name+": operand after the call", x, xv)
	// same call with the receiver aliased to the operand (the library's own calling style)
	reg.M(x, name, x)
	lv.check(t, fmt.Sprintf("x.%s(x) (aliased) x=%s", name, ref.String(xv)), x, want)
	record(lv, name, key(xv), inf.zeroBlk, "x:"+inf.class, "zero_pattern:"+patClass(inf))
}

func patClass(inf elemInfo) string {
	if len(inf.pattern) <= 6 {
		return inf.pattern
	}
	n := strings.Count(inf.pattern, "0")
	return fmt.Sprintf("%dof%d_zero", n, len(inf.pattern))
}

func runBinary(t *rapid.T, lv *level, name string) {
	F := lv.F()
	xv, xi := lv.genElem(t, "x")
	yv, rel := lv.genRelated(t, xv, "y")
	x, y := lv.new(xv), lv.new(yv)
	var want ref.V
	switch name {
	case "Add":
		want = F.Add(xv, yv)
	case "Sub":
		want = F.Sub(xv, yv)
	case "Mul":
		want = F.Mul(xv, yv)
	case "Div":
		want = F.Mul(xv, lv.N.Inv(yv)) // Inverse(0)=0 => Div(x,0)=0
	}
	z := lv.poisoned()
	reg.M(z, name, x, y)
	lv.check(t, fmt.Sprintf("%s(%s, %s)", name, ref.String(xv), ref.String(yv)), z, want)
	lv.check(t, name+": x after the call", x, xv)
	lv.check(t, name+": y after the call", y, yv)
	yi := lv.info(yv, rel)
	record(lv, name, key(xv, yv), xi.zeroBlk || yi.zeroBlk, "x:"+xi.class, "y:"+rel)
}

func (lv *level) expBits() int {
	switch d := lv.deg(); {
	case d <= 4:
		return 1100
	case d <= 6:
		return 800
	case d <= 12:
		return 400
	default:
		return 300
	}
}

func (lv *level) expModulus() *big.Int {
	if c := lv.fam.curve; c != nil {
		return c.R
	}
	return lv.fam.p
}

func runExp(t *rapid.T, lv *level, name string) {
	xv, xi := lv.genElem(t, "x")
	var k *big.Int
	var kc string
	var extra []string
	if uniP(t, 5, "kgroup") == 0 && lv.deg() <= 6 {
		// exponents tied to the group structure: |F*|, |F*|±1, p, -|F*|
		ord := new(big.Int).Sub(lv.N.Order(), big.NewInt(1))
		k = []*big.Int{ord, new(big.Int).Add(ord, big.NewInt(1)), new(big.Int).Sub(ord, big.NewInt(1)), new(big.Int).Neg(ord), lv.fam.p}[uniP(t, 4, "kg")]
		kc = "group_order"
	} else if uniP(t, 3, "kword") == 0 {
		k, kc = wordExponent(t, "k")
		extra = kwClasses(kc)
	} else {
		k, kc = gen.Int(t, lv.expModulus(), lv.expBits(), "k")
	}
	x := lv.new(xv)
	z := lv.poisoned()
	reg.M(z, name, x, k) // x is passed by value
	want := ref.Exp(lv.F(), xv, k)
	lv.check(t, fmt.Sprintf("Exp(%s, %s)", ref.String(xv), k), z, want)
	lv.check(t, "Exp: operand after the call", x, xv)
	record(lv, name, key(xv, k), true, append([]string{"x:" + xi.class, "k:" + kc}, extra...)...)
}

func runHalve(t *rapid.T, lv *level, name string) {
	xv, xi := lv.genElem(t, "x")
	x := lv.new(xv)
	reg.M(x, "Halve")
	half := lv.fam.naive[0].Inv(ref.V{big.NewInt(2)})
	want := make(ref.V, len(xv))
	for i := range xv {
		want[i] = lv.fam.naive[0].Mul(ref.V{xv[i]}, half)[0]
	}
	lv.check(t, "Halve("+ref.String(xv)+")", x, want)
	record(lv, name, key(xv), xi.zeroBlk, "x:"+xi.class)
}

// embed lifts an element of level j to level lv (constant coefficient).
func (lv *level) embed(j int, c ref.V) ref.V {
	out := lv.N.Zero()
	copy(out, ref.Red(lv.fam.naive[0], c))
	return out
}

func runMulByLower(t *rapid.T, lv *level, name string) {
	f := lv.fam
	m, _ := reflect.PtrTo(lv.T).MethodByName(name)
	j := f.levelOf(m.Type.In(2).Elem())
	if j < 0 || j >= lv.i {
		t.Fatalf("%s: %s: unexpected operand type %v", lv.id, name, m.Type.In(2))
	}
	lj := &level{fam: f, i: j, id: f.name + "/" + f.names[j], T: f.types[j], N: f.naive[j]}
	xv, xi := lv.genElem(t, "x")
	var yv ref.V
	yc := ""
	if j == 0 {
		v, c := f.spec.Elem(t, "y")
		yv, yc = ref.V{v}, c
	} else {
		var yi elemInfo
		yv, yi = lj.genElem(t, "y")
		yc = yi.class
	}
	x, y := lv.new(xv), f.newAt(j, yv)
	z := lv.poisoned()
	reg.M(z, name, x, y)
	want := lv.F().Mul(xv, lv.embed(j, yv))
	lv.check(t, fmt.Sprintf("%s(%s, %s)", name, ref.String(xv), ref.String(yv)), z, want)
	lv.check(t, name+": x after the call", x, xv)
	record(lv, name, key(xv, yv), xi.zeroBlk, "x:"+xi.class, "y:"+yc)
}

// ---- sparse products, self-calibrated --------------------------------------------------------

type sparseShape struct {
	j      int   // level of the coefficients
	nargs  int
	array  bool  // single *[n]U argument
	pos    []int // block index of argument i in One.Op(args)
	onePos int   // block index that holds 1 (or -1)
	nb     int
}

var (
	shapeMu sync.Mutex
	shapes  = map[string]*sparseShape{}
)

// calibrate determines where a sparse routine places its arguments: S := One.Op(m_0, m_1, ...)
// with distinct dense markers; every block of S must be 0, 1 or exactly one marker, every marker
// must appear once, in increasing position, and the positions must be the digits of the method
// name (which is how the doc comments denote the sparse element, e.g. (c0,0,0,c3,c4,0) = "034").
func (lv *level) calibrate(name string) (*sparseShape, error) {
	shapeMu.Lock()
	defer shapeMu.Unlock()
	if s, ok := shapes[lv.id+"."+name]; ok {
		return s, nil
	}
	f := lv.fam
	m, _ := reflect.PtrTo(lv.T).MethodByName(name)
	mt := m.Type
	sh := &sparseShape{onePos: -1}
	var ut reflect.Type
	if mt.NumIn() == 2 && mt.In(1).Kind() == reflect.Ptr && mt.In(1).Elem().Kind() == reflect.Array && f.levelOf(mt.In(1).Elem()) < 0 {
		sh.array = true
		sh.nargs = mt.In(1).Elem().Len()
		ut = mt.In(1).Elem().Elem()
	} else {
		sh.nargs = mt.NumIn() - 1
		for i := 1; i < mt.NumIn(); i++ {
			if mt.In(i).Kind() != reflect.Ptr || (ut != nil && mt.In(i).Elem() != ut) {
				return nil, fmt.Errorf("unexpected signature %s", sig(lv.T, name))
			}
			ut = mt.In(i).Elem()
		}
	}
	sh.j = f.levelOf(ut)
	if sh.j < 0 || sh.j >= lv.i {
		return nil, fmt.Errorf("coefficient type %v is not a lower level", ut)
	}
	bd := f.naive[sh.j].Deg()
	sh.nb = lv.deg() / bd
	markers := make([]ref.V, sh.nargs)
	for i := range markers {
		markers[i] = make(ref.V, bd)
		for k := range markers[i] {
			markers[i][k] = big.NewInt(int64(1000 + 97*i + 13*k))
		}
	}
	S := flat(lv.callSparse(lv.new(lv.N.One()), name, sh, markers))
	sh.pos = make([]int, sh.nargs)
	for i := range sh.pos {
		sh.pos[i] = -1
	}
	one := f.naive[sh.j].One()
	for b := 0; b < sh.nb; b++ {
		blk := S[b*bd : (b+1)*bd]
		switch {
		case f.naive[sh.j].IsZero(blk):
		case vecEq(blk, one):
			if sh.onePos >= 0 {
				return nil, fmt.Errorf("One.%s(markers) has two unit blocks", name)
			}
			sh.onePos = b
		default:
			hit := -1
			for i, mk := range markers {
				if vecEq(blk, mk) {
					hit = i
				}
			}
			if hit < 0 || sh.pos[hit] >= 0 {
				return nil, fmt.Errorf("One.%s(markers) is not the documented sparse element: block %d = %s", name, b, ref.String(blk))
			}
			sh.pos[hit] = b
		}
	}
	digits := reSparse.FindStringSubmatch(name)[1]
	var got strings.Builder
	for i, p := range sh.pos {
		if p < 0 {
			return nil, fmt.Errorf("One.%s(markers): argument %d does not appear in the result", name, i)
		}
		got.WriteString(strconv.Itoa(p))
	}
	if got.String() != digits {
		return nil, fmt.Errorf("%s places its arguments at blocks %s, the name/doc says %s", name, got.String(), digits)
	}
	shapes[lv.id+"."+name] = sh
	rep.Note("C06_Ring/"+lv.id, fmt.Sprintf("%s calibrated: %d coefficients of %s at blocks %v, implicit 1 at block %d (of %d)", name, sh.nargs, f.names[sh.j], sh.pos, sh.onePos, sh.nb))
	return sh, nil
}

func (lv *level) callSparse(z interface{}, name string, sh *sparseShape, args []ref.V) interface{} {
	f := lv.fam
	if sh.array {
		arr := reflect.New(reflect.ArrayOf(sh.nargs, f.types[sh.j]))
		for i, a := range args {
			reg.Unflatten(arr.Elem().Index(i).Addr().Interface(), ref.Red(f.naive[0], a))
		}
		reg.M(z, name, arr.Interface())
		return z
	}
	in := make([]interface{}, len(args))
	for i, a := range args {
		in[i] = f.newAt(sh.j, a)
	}
	reg.M(z, name, in...)
	return z
}

func (lv *level) sparseElem(sh *sparseShape, args []ref.V) ref.V {
	bd := lv.fam.naive[sh.j].Deg()
	S := lv.N.Zero()
	for i, a := range args {
		copy(S[sh.pos[i]*bd:], ref.Red(lv.fam.naive[0], a))
	}
	if sh.onePos >= 0 {
		S[sh.onePos*bd] = big.NewInt(1)
	}
	return S
}

func runSparse(t *rapid.T, lv *level, name string) {
	sh, err := lv.calibrate(name)
	if err != nil {
		t.Fatalf("%s: %s: %v", lv.id, name, err)
	}
	f := lv.fam
	lj := &level{fam: f, i: sh.j, id: f.name + "/" + f.names[sh.j], T: f.types[sh.j], N: f.naive[sh.j]}
	args := make([]ref.V, sh.nargs)
	var cls []string
	for i := range args {
		if sh.j == 0 {
			v, c := f.spec.Elem(t, fmt.Sprintf("c%d", i))
			args[i] = ref.V{v}
			cls = append(cls, c)
		} else {
			var inf elemInfo
			args[i], inf = lj.genElem(t, fmt.Sprintf("c%d", i))
			cls = append(cls, inf.class)
		}
	}
	zv, zi := lv.genElem(t, "z")
	S := lv.sparseElem(sh, args)
	// the sparse element itself, as produced by the routine from 1
	lv.check(t, fmt.Sprintf("One.%s(%s)", name, key(anys(args)...)), lv.callSparse(lv.new(lv.N.One()), name, sh, args), S)
	z := lv.callSparse(lv.new(zv), name, sh, args)
	lv.check(t, fmt.Sprintf("(%s).%s(%s)", ref.String(zv), name, key(anys(args)...)), z, lv.F().Mul(zv, S))
	record(lv, name, key(zv, key(anys(args)...)), true, "z:"+zi.class, "sparse_arg:"+cls[0])
}

func anys(vs []ref.V) []interface{} {
	out := make([]interface{}, len(vs))
	for i, v := range vs {
		out[i] = v
	}
	return out
}

// ---- predicates, square roots, selection, encoding ------------------------------------------

func runPred(t *rapid.T, lv *level, name string) {
	xv, xi := lv.genElem(t, "x")
	x := lv.new(xv)
	half := new(big.Int).Rsh(lv.fam.p, 1)
	switch name {
	case "IsZero":
		if g, w := reg.Bool(x, name), lv.N.IsZero(xv); g != w {
			t.Fatalf("%s: IsZero(%s)=%v", lv.id, ref.String(xv), g)
		}
	case "IsOne":
		if g, w := reg.Bool(x, name), lv.N.Eq(xv, lv.N.One()); g != w {
			t.Fatalf("%s: IsOne(%s)=%v", lv.id, ref.String(xv), g)
		}
	case "LexicographicallyLargest":
		// "strictly lexicographically larger than its negation" in the order of Cmp (highest
		// coefficient first): decided by the highest non-zero coefficient c: c > (p-1)/2
		w := false
		for i := len(xv) - 1; i >= 0; i-- {
			if xv[i].Sign() != 0 {
				w = xv[i].Cmp(half) > 0
				break
			}
		}
		if g := reg.Bool(x, name); g != w {
			t.Fatalf("%s: LexicographicallyLargest(%s)=%v want %v", lv.id, ref.String(xv), g, w)
		}
	case "Legendre":
		w := 0
		if !lv.N.IsZero(xv) {
			w = -1
			if lv.N.IsSquare(xv) {
				w = 1
			}
		}
		if g := reg.M(x, name)[0].(int); g != w {
			t.Fatalf("%s: Legendre(%s)=%d want %d", lv.id, ref.String(xv), g, w)
		}
	}
	record(lv, name, key(xv), xi.zeroBlk, "x:"+xi.class)
}

func runCompare(t *rapid.T, lv *level, name string) {
	xv, xi := lv.genElem(t, "x")
	yv, rel := lv.genRelated(t, xv, "y")
	if uniP(t, 3, "perturb") == 0 {
		// equal except for one coefficient
		yv = append(ref.V{}, ref.Red(lv.fam.naive[0], xv)...)
		i := rapid.IntRange(0, len(yv)-1).Draw(t, "at")
		yv[i] = new(big.Int).Mod(new(big.Int).Add(yv[i], big.NewInt(1)), lv.fam.p)
		rel = "one_coeff_differs"
	}
	x, y := lv.new(xv), lv.new(yv)
	switch name {
	case "Equal":
		if g, w := reg.Bool(x, name, y), lv.N.Eq(xv, yv); g != w {
			t.Fatalf("%s: Equal(%s,%s)=%v", lv.id, ref.String(xv), ref.String(yv), g)
		}
	case "Cmp":
		w := 0
		a, b := ref.Red(lv.fam.naive[0], xv), ref.Red(lv.fam.naive[0], yv)
		for i := len(a) - 1; i >= 0 && w == 0; i-- {
			w = a[i].Cmp(b[i])
		}
		if g := reg.M(x, name, y)[0].(int); g != w {
			t.Fatalf("%s: Cmp(%s,%s)=%d want %d", lv.id, ref.String(xv), ref.String(yv), g, w)
		}
	}
	record(lv, name, key(xv, yv), xi.zeroBlk, "x:"+xi.class, "y:"+rel)
}

func runSqrt(t *rapid.T, lv *level, name string) {
	F := lv.F()
	var xv ref.V
	cls := ""
	switch uniP(t, 3, "how") {
	case 0:
		var inf elemInfo
		xv, inf = lv.genElem(t, "x")
		cls = "any:" + inf.class
	default:
		// a square by construction (so every class of root, including sparse ones, is reached)
		rv, inf := lv.genElem(t, "r")
		xv = F.Mul(rv, rv)
		cls = "square_of:" + inf.class
	}
	x := lv.new(xv)
	z := lv.poisoned()
	sq := lv.N.IsSquare(xv)
	reg.M(z, name, x) // documented: does not test for existence; must not panic
	if sq {
		zz := flat(z)
		if !F.Eq(F.Mul(zz, zz), xv) {
			t.Fatalf("%s: Sqrt(%s)=%s is not a square root (input is a square)", lv.id, ref.String(xv), ref.String(zz))
		}
		cls += ",square"
	} else {
		cls += ",nonsquare(no-panic only)"
	}
	lv.check(t, "Sqrt: operand after the call", x, xv)
	record(lv, name, key(xv), true, cls)
}

func runInverseUnitary(t *rapid.T, lv *level, name string) {
	// unitary elements: u = conj(y)/y, for which the inverse is the conjugate
	yv, yi := lv.genElem(t, "y")
	if lv.N.IsZero(yv) {
		yv = lv.N.One()
	}
	u := lv.F().Mul(lv.involution(yv), lv.N.Inv(yv))
	z := lv.poisoned()
	reg.M(z, name, lv.new(u))
	lv.check(t, "InverseUnitary(conj(y)/y), y="+ref.String(yv), z, lv.N.Inv(u))
	record(lv, name, key(yv), true, "y:"+yi.class)
}

func runSelect(t *rapid.T, lv *level, name string) {
	xv, xi := lv.genElem(t, "x")
	yv, yi := lv.genElem(t, "y")
	c := rapid.SampledFrom([]int{0, 1, -1, 2, 1 << 30, -1 << 31, 1 << 31, -1 << 63}).Draw(t, "cond")
	z := lv.poisoned()
	reg.M(z, name, c, lv.new(xv), lv.new(yv))
	want := xv
	if c != 0 {
		want = yv
	}
	lv.check(t, fmt.Sprintf("Select(%d, %s, %s)", c, ref.String(xv), ref.String(yv)), z, want)
	record(lv, name, key(c, xv, yv), xi.zeroBlk || yi.zeroBlk, "x:"+xi.class, fmt.Sprintf("cond:%d", c))
}

func runSetConst(t *rapid.T, lv *level, name string) {
	z := lv.poisoned()
	reg.M(z, name)
	want := lv.N.Zero()
	if name == "SetOne" {
		want = lv.N.One()
	}
	lv.check(t, name, z, want)
	record(lv, name, "", false)
}

func runClone(t *rapid.T, lv *level, name string) {
	xv, xi := lv.genElem(t, "x")
	x := lv.new(xv)
	c := reg.M(x, name)[0]
	lv.check(t, "Clone", c, xv)
	if reflect.ValueOf(c).Pointer() == reflect.ValueOf(x).Pointer() {
		t.Fatalf("%s: Clone returned the receiver", lv.id)
	}
	record(lv, name, key(xv), xi.zeroBlk, "x:"+xi.class)
}

// runBytes: Bytes/Marshal layout (documented: big-endian coefficients, highest coordinate first)
// and SetBytes/Unmarshal round trip.
func runBytes(t *rapid.T, lv *level, name string) {
	xv, xi := lv.genElem(t, "x")
	x := lv.new(xv)
	var b []byte
	res := reg.M(x, name)[0]
	rv := reflect.ValueOf(res)
	if rv.Kind() == reflect.Array {
		b = make([]byte, rv.Len())
		reflect.Copy(reflect.ValueOf(b), rv)
	} else {
		b = res.([]byte)
	}
	n := lv.deg()
	if len(b)%n != 0 {
		t.Fatalf("%s: %s returned %d bytes for %d coefficients", lv.id, name, len(b), n)
	}
	sz := len(b) / n
	xr := ref.Red(lv.fam.naive[0], xv)
	// big-endian coefficients in a fixed order: the E12/E6 packages document "highest coordinate
	// first" (z.C1.B2.A1 | z.C1.B2.A0 | ...), the E24 packages (undocumented) emit D0.C0.B0.A0 first
	match := func(rev bool) bool {
		for i := 0; i < n; i++ {
			k := i
			if rev {
				k = n - 1 - i
			}
			if new(big.Int).SetBytes(b[k*sz:(k+1)*sz]).Cmp(xr[i]) != 0 {
				return false
			}
		}
		return true
	}
	hi, lo := match(true), match(false)
	switch {
	case hi && !lo:
		rep.Note("C06_Ring/"+lv.id, name+": coefficients are emitted highest coordinate first (as documented for E12/E6)")
	case lo && !hi:
		rep.Note("C06_Ring/"+lv.id, name+": coefficients are emitted lowest coordinate first")
	case !hi && !lo:
		t.Fatalf("%s: %s(%s) = %x is not the big-endian sequence of the coefficients", lv.id, name, ref.String(xv), b)
	}
	set := "SetBytes"
	if name == "Marshal" {
		set = "Unmarshal"
	}
	if hasMethod(lv.T, set) {
		z := lv.poisoned()
		if err := reg.Err(reg.M(z, set, b)); err != nil {
			t.Fatalf("%s: %s(%s(x)) failed: %v", lv.id, set, name, err)
		}
		lv.check(t, set+"("+name+"(x))", z, xv)
		// wrong sizes are documented to fail
		if err := reg.Err(reg.M(lv.poisoned(), set, b[:len(b)-1])); err == nil {
			t.Fatalf("%s: %s accepted a short buffer", lv.id, set)
		}
	}
	record(lv, name, key(xv), xi.zeroBlk, "x:"+xi.class)
}

var _ = testing.Short
