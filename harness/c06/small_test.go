package c06

import (
	"fmt"
	"math/big"
	"reflect"
	"testing"

	"pgregory.net/rapid"

	"verif/harness/internal/ref"
	"verif/harness/internal/reg"
	"verif/harness/internal/rep"
)

// Vector / batch kernels of the small-field extension packages (exported functions):
// MulAccE4(alpha, scale, res): res[i] += alpha*scale[i]  (AVX-512 kernel when len%4==0)
// BatchInvertE2/E4(a): element-wise inverse, zeros stay zero, input untouched
// MulBy7 / MulBy11 (the non-residue as a base-field scalar).

func forSmall(t *testing.T, body func(t *testing.T, f *family)) {
	for _, n := range SmallNames {
		if !selected(n) {
			continue
		}
		n := n
		t.Run(n, func(t *testing.T) { body(t, getFamily(n)) })
	}
}

// sliceAt builds a []T of library values with `off` spare elements in front (so that the
// kernel sees every alignment) and returns the sub-slice [off:off+len(vs)].
func (f *family) sliceAt(level int, vs []ref.V, off int) reflect.Value {
	ty := f.types[level]
	s := reflect.MakeSlice(reflect.SliceOf(ty), off+len(vs), off+len(vs)+3)
	for i, v := range vs {
		reg.Unflatten(s.Index(off+i).Addr().Interface(), ref.Red(f.naive[0], v))
	}
	return s.Slice(off, off+len(vs))
}

func TestC06_SmallKernels(t *testing.T) {
	forSmall(t, func(t *testing.T, f *family) {
		test := "C06_SmallKernels/" + f.name
		rapid.Check(t, func(t *rapid.T) {
			var ops []string
			for _, fn := range []string{"MulAccE4", "BatchInvertE2", "BatchInvertE4", "MulBy7", "MulBy11"} {
				if f.pkg.Has(fn) {
					ops = append(ops, fn)
				}
			}
			op := ops[uni(t, len(ops), "op")]
			switch op {
			case "MulAccE4":
				lv := f.top()
				F := lv.F()
				// lengths around the 4-lane blocks: 0..3 tails, several blocks, every alignment
				n := []int{0, 1, 2, 3, 4, 5, 7, 8, 12, 16, 17, 20, 31, 32, 64, 33}[uni(t, 16, "n")]
				if uniP(t, 3, "nrand") == 0 {
					n = uni(t, 70, "nr")
				}
				off1, off2 := uni(t, 5, "off1"), uni(t, 5, "off2")
				av, ai := lv.genElem(t, "alpha")
				scale := make([]ref.V, n)
				res := make([]ref.V, n)
				q := f.p
				maxSum := uniP(t, 7, "maxsum") == 0
				if maxSum {
					// alpha = -1: every accumulated coordinate alpha*scale is q - scale
					av, ai = F.Neg(F.One()), lv.info(F.Neg(F.One()), "minus_one(max_sum)")
				}
				accCls := map[string]bool{}
				for i := 0; i < n; i++ {
					scale[i] = ref.V{f.coef(t, "s")}
					if maxSum && uniP(t, 1, "s1") == 0 {
						scale[i] = ref.V{big.NewInt(1)}
					}
					res[i], _ = lv.genElem(t, "r")
					// constructed relations between res[i] and acc = alpha*scale[i], coordinate-wise:
					// the unreduced sum res.c + acc.c lands on q (exact cancellation: result 0),
					// q-1 (result q-1, no reduction), q+1 (result 1), 2q-2 (largest possible sum)
					acc := ref.Red(f.naive[0], F.Mul(av, lv.embed(0, scale[i])))
					c := uni(t, lv.deg(), "coord")
					cl := "indep"
					rel := uni(t, 8, "rel")
					if maxSum && scale[i][0].Cmp(big.NewInt(1)) == 0 && uniP(t, 1, "force") == 0 {
						c, rel = 0, 5 // acc.c0 = q-1 and res.c0 = q-1: the largest unreduced sum
					}
					switch rel {
					case 0:
						res[i], cl = F.Neg(acc), "cancel_all"
					case 1, 2:
						res[i] = append(ref.V{}, ref.Red(f.naive[0], res[i])...)
						res[i][c], cl = new(big.Int).Mod(new(big.Int).Neg(acc[c]), q), "cancel_coord"
					case 3:
						res[i] = append(ref.V{}, ref.Red(f.naive[0], res[i])...)
						res[i][c], cl = new(big.Int).Mod(new(big.Int).Sub(big.NewInt(-1), acc[c]), q), "coord_qm1"
					case 4:
						res[i] = append(ref.V{}, ref.Red(f.naive[0], res[i])...)
						res[i][c], cl = new(big.Int).Mod(new(big.Int).Sub(big.NewInt(1), acc[c]), q), "coord_one"
					case 5:
						res[i] = append(ref.V{}, ref.Red(f.naive[0], res[i])...)
						res[i][c], cl = new(big.Int).Sub(q, big.NewInt(1)), "res_qm1"
					}
					if cl == "cancel_coord" && acc[c].Sign() == 0 {
						cl = "cancel_coord(acc=0)"
					}
					if s := new(big.Int).Add(ref.Red(f.naive[0], res[i])[c], acc[c]); s.Cmp(new(big.Int).Sub(new(big.Int).Lsh(q, 1), big.NewInt(2))) == 0 {
						cl = "max_sum_2q-2"
					}
					accCls["acc:"+cl] = true
				}
				alpha := lv.new(av)
				sc := f.sliceAt(0, scale, off1)
				rs := f.sliceAt(lv.i, res, off2)
				f.pkg.F("MulAccE4", alpha, sc.Interface(), rs.Interface())
				for i := 0; i < n; i++ {
					want := F.Add(res[i], F.Mul(av, lv.embed(0, scale[i])))
					lv.check(t, fmt.Sprintf("MulAccE4 n=%d off=(%d,%d): res[%d] (alpha=%s scale=%s res=%s)", n, off1, off2, i, ref.String(av), ref.String(scale[i]), ref.String(res[i])), rs.Index(i).Addr().Interface(), want)
					if !vecEq(flat(sc.Index(i).Addr().Interface()), ref.Red(f.naive[0], scale[i])) {
						t.Fatalf("%s: MulAccE4 modified scale[%d]", lv.id, i)
					}
				}
				lv.check(t, "MulAccE4: alpha after the call", alpha, av)
				tail := fmt.Sprintf("len%%4=%d", n%4)
				if n == 0 {
					tail = "len=0"
				}
				labels := []string{op, tail, "alpha:" + ai.class}
				for _, cl := range []string{"acc:indep", "acc:cancel_all", "acc:cancel_coord", "acc:cancel_coord(acc=0)", "acc:coord_qm1", "acc:coord_one", "acc:res_qm1", "acc:max_sum_2q-2"} {
					if accCls[cl] {
						labels = append(labels, cl)
						if n%4 == 0 && n > 0 {
							labels = append(labels, cl+",len%4=0") // the AVX-512 kernel takes these lengths
						}
					}
				}
				rep.Case(test, key("MulAccE4", n, off1, off2, av, anysKey(scale), anysKey(res)), true, labels...)
			case "BatchInvertE2", "BatchInvertE4":
				li := 1
				if op == "BatchInvertE4" {
					li = 2
				}
				lv := f.levels()[li-1]
				n := uni(t, 20, "n")
				vs := make([]ref.V, n)
				zeros := 0
				for i := range vs {
					vs[i], _ = lv.genElem(t, "a")
					if lv.N.IsZero(vs[i]) {
						zeros++
					}
				}
				in := f.sliceAt(li, vs, 0)
				out := reflect.ValueOf(f.pkg.F(op, in.Interface())[0])
				if out.Len() != n {
					t.Fatalf("%s: %s returned %d elements for %d", lv.id, op, out.Len(), n)
				}
				for i := 0; i < n; i++ {
					lv.check(t, fmt.Sprintf("%s[%d] of %s", op, i, anysKey(vs)), out.Index(i).Addr().Interface(), lv.N.Inv(vs[i]))
					lv.check(t, op+": input after the call", in.Index(i).Addr().Interface(), vs[i])
				}
				rep.Case(test, key(op, anysKey(vs)), zeros > 0 || n == 0, op, fmt.Sprintf("zeros:%d", min(zeros, 3)), fmt.Sprintf("len:%d", min(n, 4)))
			case "MulBy7", "MulBy11":
				k := int64(7)
				if op == "MulBy11" {
					k = 11
				}
				v, c := f.spec.Elem(t, "x")
				x := f.newAt(0, ref.V{v})
				f.pkg.F(op, x)
				want := new(big.Int).Mod(new(big.Int).Mul(v, big.NewInt(k)), f.p)
				if g := flat(x)[0]; g.Cmp(want) != 0 {
					t.Fatalf("%s: %s(%s)=%s want %s", f.name, op, v, g, want)
				}
				rep.Case(test, key(op, v), f.spec.OnBoundary(v), op, "x:"+c)
			}
		})
	})
}

func anysKey(vs []ref.V) string { return key(anys(vs)...) }

