package c03

import (
	"fmt"
	"math/big"
	"testing"

	"verif/harness/internal/gen"
	"verif/harness/internal/ref"
	"verif/harness/internal/reg"
)

func noPanic(t *testing.T, what string, f func()) {
	defer func() {
		if r := recover(); r != nil {
			t.Errorf("%s panicked: %v", what, r)
		}
	}()
	f()
}

// TestC03_RegressF2: G1Jac.JointScalarMultiplication(Base) took the loop bound from the unreduced
// scalars but the digits from the reduced ones: index out of range for any scalar wider than
// 64*Limbs bits. Rapid-free; fails while the defect is present.
func TestC03_RegressF2(t *testing.T) {
	forGroups(t, func(t *testing.T, w *wg) {
		g, E := w.g, w.g.E
		if !w.joint && !w.jointBase {
			return
		}
		limbs := (g.R.BitLen() + 63) / 64
		for _, s := range []*big.Int{
			new(big.Int).Lsh(big.NewInt(1), uint(64*limbs)),
			new(big.Int).Add(new(big.Int).Lsh(big.NewInt(1), uint(64*limbs+44)), big.NewInt(12345)),
			new(big.Int).Neg(new(big.Int).Lsh(big.NewInt(3), uint(64*limbs+200))),
		} {
			one := big.NewInt(1)
			P := gen.MulGen(g, big.NewInt(7))
			a1, a2 := g.FromRef(g.Gen), g.FromRef(P)
			want := E.Add(gen.MulGen(g, s), P)
			if w.joint {
				noPanic(t, fmt.Sprintf("%s: JointScalarMultiplication(G, 7G, s=%s, 1)", g.ID(), s.Text(16)), func() {
					j := g.NewJac()
					if w.jointJacArgs {
						one3 := ref.Scalar(E.F, big.NewInt(1))
						reg.M(j, "JointScalarMultiplication", g.JacFromRef(g.Gen, one3), g.JacFromRef(P, one3), s, one)
					} else {
						reg.M(j, "JointScalarMultiplication", a1, a2, s, one)
					}
					if got := g.JacToRef(j); !E.Eq(got, want) {
						t.Errorf("%s: JointScalarMultiplication(G, 7G, s=%s, 1) = %s want %s", g.ID(), s.Text(16), E.Str(got), E.Str(want))
					}
					// wide scalar in second position
					j = g.NewJac()
					if w.jointJacArgs {
						one3 := ref.Scalar(E.F, big.NewInt(1))
						reg.M(j, "JointScalarMultiplication", g.JacFromRef(P, one3), g.JacFromRef(g.Gen, one3), one, s)
					} else {
						reg.M(j, "JointScalarMultiplication", a2, a1, one, s)
					}
					if got := g.JacToRef(j); !E.Eq(got, want) {
						t.Errorf("%s: JointScalarMultiplication(7G, G, 1, s=%s) = %s want %s", g.ID(), s.Text(16), E.Str(got), E.Str(want))
					}
				})
			}
			if w.jointBase {
				noPanic(t, fmt.Sprintf("%s: JointScalarMultiplicationBase(7G, s=%s, 1)", g.ID(), s.Text(16)), func() {
					j := g.NewJac()
					reg.M(j, "JointScalarMultiplicationBase", a2, s, one)
					if got := g.JacToRef(j); !E.Eq(got, want) {
						t.Errorf("%s: JointScalarMultiplicationBase(7G, s=%s, 1) = %s want %s", g.ID(), s.Text(16), E.Str(got), E.Str(want))
					}
				})
			}
		}
	})
}

// TestC03_RegressF20: the hand-written stark-curve mulWindowed ignored the sign of the scalar.
func TestC03_RegressF20(t *testing.T) {
	forGroups(t, func(t *testing.T, w *wg) {
		g, E := w.g, w.g.E
		for _, k := range []int64{-1, -5, -1 << 40} {
			s := big.NewInt(k)
			want := E.Mul(s, g.Gen)
			r := g.NewAff()
			reg.M(r, "ScalarMultiplication", g.FromRef(g.Gen), s)
			if got := g.ToRef(r); !E.Eq(got, want) {
				t.Errorf("%s: Affine.ScalarMultiplication(G, %d) = %s want %s", g.ID(), k, E.Str(got), E.Str(want))
			}
			j := g.NewJac()
			reg.M(j, "ScalarMultiplication", g.JacFromRef(g.Gen, ref.Scalar(E.F, big.NewInt(2))), s)
			if got := g.JacToRef(j); !E.Eq(got, want) {
				t.Errorf("%s: Jac.ScalarMultiplication(G, %d) = %s want %s", g.ID(), k, E.Str(got), E.Str(want))
			}
			if w.affBase {
				r = g.NewAff()
				reg.M(r, "ScalarMultiplicationBase", s)
				if got := g.ToRef(r); !E.Eq(got, want) {
					t.Errorf("%s: Affine.ScalarMultiplicationBase(%d) = %s want %s", g.ID(), k, E.Str(got), E.Str(want))
				}
			}
		}
	})
}

// TestC03_RegressF21_F53: bandersnatch scalarMulGLV (a) stored the sub-scalars of an unreduced
// scalar in fr.Element (wrong modulus) => wrong result for long scalars; (b) applied the
// endomorphism to the identity, which it maps to (0:0:0) => [s]O = (0,0).
func TestC03_RegressF21_F53(t *testing.T) {
	forEdwards(t, func(t *testing.T, w *ed) {
		e, E := w.e, w.e.E
		long := new(big.Int).Lsh(big.NewInt(1), 700)
		long.Add(long, big.NewInt(12345))
		lam := new(big.Int).Rsh(e.Order, 1)
		cases := []struct {
			nm string
			P  ref.EPt
			s  *big.Int
		}{
			{"F21 [2^700+12345]B", e.Base, long},
			{"F21 [-(2^700+12345)]B", e.Base, new(big.Int).Neg(long)},
			{"F21 [2^1000]B", e.Base, new(big.Int).Lsh(big.NewInt(1), 1000)},
			{"F53 [-1]O", E.Zero(), big.NewInt(-1)},
			{"F53 [(order-1)/2]O", E.Zero(), lam},
			{"F53 [2^200+1]O", E.Zero(), new(big.Int).Add(new(big.Int).Lsh(big.NewInt(1), 200), big.NewInt(1))},
		}
		for _, c := range cases {
			want := E.Mul(new(big.Int).Mod(c.s, e.Order), c.P)
			for _, ty := range []string{"PointAffine", "PointProj", "PointExtended"} {
				var in interface{}
				switch ty {
				case "PointAffine":
					in = e.NewAffine(c.P)
				case "PointProj":
					in = e.NewProj(c.P, big.NewInt(5))
				default:
					in = e.NewExtended(c.P, big.NewInt(5))
				}
				r := e.Pkg.New(ty)
				reg.M(r, "ScalarMultiplication", in, c.s)
				v := reg.Flatten(r)
				if len(v) >= 3 && E.F.IsZero(v[2]) {
					t.Errorf("%s: %s %s: invalid result %v", e.Name, ty, c.nm, v)
					continue
				}
				if got := e.ToRef(r); !E.Eq(got, want) {
					t.Errorf("%s: %s %s = %s want %s", e.Name, ty, c.nm, estr(got), estr(want))
				}
			}
		}
	})
}
