package c03

import (
	"fmt"
	"math/big"
	"testing"

	"github.com/consensys/gnark-crypto/ecc"
	"pgregory.net/rapid"

	"verif/harness/internal/gen"
	"verif/harness/internal/inst"
	"verif/harness/internal/ref"
	"verif/harness/internal/reg"
	"verif/harness/internal/rep"
)

type ed struct {
	e   *inst.Edwards
	s   gen.FieldSpec
	glv *gen.GLV      // bandersnatch only: eigenvalues ±sqrt(-2) mod Order, derived here
	lat []ecc.Lattice // classification only
}

func forEdwards(t *testing.T, body func(t *testing.T, w *ed)) {
	for _, n := range inst.EdwardsNames {
		if !selected(n) {
			continue
		}
		e := inst.GetEdwards(n)
		host := "bls12-381"
		if n != "bls12-381/bandersnatch" {
			host = n[:len(n)-len("/twistededwards")]
		}
		w := &ed{e: e, s: gen.SpecOf(inst.FieldByName(host + "/fr"))}
		if n == "bls12-381/bandersnatch" {
			// the endomorphism of bandersnatch satisfies phi^2 = -2: its eigenvalue is a square root of -2 mod Order
			if sq := gen.SqrtsMod(big.NewInt(-2), e.Order); sq != nil {
				w.glv = gen.NewGLV(e.Order, sq)
				for _, l := range sq {
					var lat ecc.Lattice
					ecc.PrecomputeLattice(e.Order, l, &lat)
					w.lat = append(w.lat, lat)
				}
			}
		}
		t.Run(n, func(t *testing.T) { body(t, w) })
	}
}

func estr(p ref.EPt) string { return "(" + p.X.Text(16) + "," + p.Y.Text(16) + ")" }

func (w *ed) is(t *rapid.T, what string, p interface{}, want ref.EPt) {
	F := w.e.E.F
	v := reg.Flatten(p)
	if len(v) >= 3 && F.IsZero(v[2]) {
		t.Fatalf("%s: %s: result has Z=0: %s (want %s)", w.e.Name, what, ref.String(v), estr(want))
	}
	got := w.e.ToRef(p)
	if !w.e.E.Eq(got, want) {
		t.Fatalf("%s: %s: got %s want %s", w.e.Name, what, estr(got), estr(want))
	}
	if len(v) == 4 && !F.Eq(F.Mul(v[3], v[2]), F.Mul(v[0], v[1])) {
		t.Fatalf("%s: %s: extended result violates T*Z = X*Y: %s", w.e.Name, what, ref.String(v))
	}
}

// propEdMul: [s]P for P in the prime-order subgroup (O included), affine / projective / extended.
func propEdMul(t *rapid.T, w *ed) {
	e, E := w.e, w.e.E
	var P gen.EPt
	if rapid.IntRange(0, 7).Draw(t, "PO") == 0 {
		P = gen.EPt{P: E.Zero(), Class: "O", K: new(big.Int)}
	} else {
		P = gen.EdSubgroupPoint(t, e, "P")
	}
	s, sc := gen.Scalar(t, e.Order, maxBits(e.Order), w.glv, "s")
	var want ref.EPt
	if s.BitLen() <= 2*e.Order.BitLen()+64 {
		want = E.Mul(s, P.P)
	} else {
		want = gen.EdMulBase(e, new(big.Int).Mul(s, P.K))
	}
	z, _ := w.s.Elem(t, "z")
	zc := "Z!=1"
	if z.Sign() == 0 || z.Cmp(big.NewInt(1)) == 0 {
		z, zc = big.NewInt(1), "Z=1"
	}
	what := fmt.Sprintf("(s=%s [%s], P=%s [%s], z=%s)", s.Text(16), sc, estr(P.P), P.Class, z.Text(16))
	s0 := new(big.Int).Set(s)

	r := e.NewAffine(e.Base)
	reg.M(r, "ScalarMultiplication", e.NewAffine(P.P), s)
	w.is(t, "PointAffine.ScalarMultiplication"+what, r, want)
	r = e.NewProj(e.Base, big.NewInt(3))
	reg.M(r, "ScalarMultiplication", e.NewProj(P.P, z), s)
	w.is(t, "PointProj.ScalarMultiplication"+what, r, want)
	r = e.NewExtended(e.Base, big.NewInt(3))
	reg.M(r, "ScalarMultiplication", e.NewExtended(P.P, z), s)
	w.is(t, "PointExtended.ScalarMultiplication"+what, r, want)
	if s.Cmp(s0) != 0 {
		t.Fatalf("%s: the scalar argument was modified", e.Name)
	}

	var cls []string
	nt := false
	two := big.NewInt(2)
	if s.Cmp(two) < 0 || s.Cmp(new(big.Int).Sub(e.Order, two)) > 0 {
		nt = true
		cls = append(cls, "s_outside_[2,r-2]")
	}
	if s.Sign() < 0 {
		cls = append(cls, "s<0")
	}
	if s.BitLen() > e.Order.BitLen() {
		nt = true
		cls = append(cls, "bitlen(s)>bitlen(r)")
	}
	if s.BitLen() > 64*((e.Order.BitLen()+63)/64) {
		cls = append(cls, "s_wider_than_fr_limbs")
	}
	if E.Eq(P.P, E.Zero()) {
		nt = true
		cls = append(cls, "P=O")
	}
	if len(w.lat) > 0 {
		neg := true
		for i := range w.lat {
			k := ecc.SplitScalar(s, &w.lat[i])
			neg = neg && (k[0].Sign() < 0 || k[1].Sign() < 0)
		}
		if neg {
			nt = true
			cls = append(cls, "glv_subscalar_negative")
		}
	}
	all := mand(e.Name, cls...)
	all = append(all, "s:"+sc, "P:"+P.Class, "z:"+zc)
	rep.Case("C03_EdMul/"+e.Name, fmt.Sprintf("%s s=%s P=%s z=%s", e.Name, s.Text(16), estr(P.P), z.Text(16)), nt, all...)
}

func TestC03_EdMul(t *testing.T) {
	forEdwards(t, func(t *testing.T, w *ed) {
		rapid.Check(t, func(t *rapid.T) { propEdMul(t, w) })
	})
}
