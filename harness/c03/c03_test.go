// Package c03: scalar multiplication equals repeated addition for every integer scalar, on every
// entry point (single, fixed-base, joint, batch, twisted Edwards incl. the bandersnatch
// endomorphism path). Oracle: double-and-add in the reference model (ref.Curve / ref.Edwards).
package c03

import (
	"fmt"
	"math/big"
	"os"
	"reflect"
	"regexp"
	"sync"
	"testing"

	"github.com/consensys/gnark-crypto/ecc"
	"pgregory.net/rapid"

	"verif/harness/internal/gen"
	"verif/harness/internal/inst"
	"verif/harness/internal/ref"
	"verif/harness/internal/reg"
	"verif/harness/internal/rep"
)

func TestMain(m *testing.M) { rep.Main(m) }

func selected(name string) bool {
	p := os.Getenv("VERIF_INST")
	if p == "" {
		return true
	}
	ok, _ := regexp.MatchString(p, name)
	return ok
}

// maxBits is the largest scalar length drawn: 4*bitlen(r) (quick), several thousand bits (thorough).
func maxBits(r *big.Int) int {
	return rep.Scale(4*r.BitLen(), 4096+4*r.BitLen())
}

// wg is one Weierstrass group with the entry points discovered by reflection.
type wg struct {
	g   *inst.Group
	s   gen.FieldSpec // base field lattice
	fr  gen.FieldSpec // scalar field lattice
	glv *gen.GLV      // candidate eigenvalues (cube roots of unity mod r), nil if 3 does not divide r-1
	lat []ecc.Lattice // library lattices for the candidate eigenvalues: used to *classify* cases only

	affBase, jacBase bool // ScalarMultiplicationBase present
	joint, jointBase bool
	jointJacArgs     bool // JointScalarMultiplication takes *G1Jac operands (stark-curve) instead of *G1Affine
	batch            string
	frElem           reflect.Type
}

var (
	wgMu    sync.Mutex
	wgCache = map[string]*wg{}
)

func newWG(g *inst.Group) *wg {
	wgMu.Lock()
	defer wgMu.Unlock()
	if w, ok := wgCache[g.ID()]; ok {
		return w
	}
	w := &wg{g: g, s: gen.BaseSpec(g.C), fr: gen.ScalarSpec(g.C)}
	if cr := gen.CubeRootsOfUnity(g.R); cr != nil {
		w.glv = gen.NewGLV(g.R, cr)
		for _, l := range cr {
			var lat ecc.Lattice
			ecc.PrecomputeLattice(g.R, l, &lat)
			w.lat = append(w.lat, lat)
		}
	}
	a, j := g.NewAff(), g.NewJac()
	w.affBase = reg.HasM(a, "ScalarMultiplicationBase")
	w.jacBase = reg.HasM(j, "ScalarMultiplicationBase")
	w.joint = reg.HasM(j, "JointScalarMultiplication")
	w.jointBase = reg.HasM(j, "JointScalarMultiplicationBase")
	if w.joint {
		mt := reflect.ValueOf(j).MethodByName("JointScalarMultiplication").Type()
		w.jointJacArgs = mt.In(0) == reflect.PtrTo(g.JacType())
	}
	if n := "BatchScalarMultiplication" + g.Name; g.C.Pkg.Has(n) {
		w.batch = n
		w.frElem = g.C.Pkg.Funcs[n].Type().In(1).Elem() // fr.Element
	}
	wgCache[g.ID()] = w
	return w
}

func forGroups(t *testing.T, body func(t *testing.T, w *wg)) {
	for _, cn := range inst.CurveNames {
		if !selected(cn+"/G1") && !selected(cn+"/G2") {
			continue
		}
		c := inst.GetCurve(cn)
		for _, g := range c.Groups() {
			if !selected(g.ID()) {
				continue
			}
			w := newWG(g)
			t.Run(g.ID(), func(t *testing.T) { body(t, w) })
		}
	}
}

// subPoint draws a subgroup point (O with probability ~1/8 plus whenever k = 0 mod r).
func (w *wg) subPoint(t *rapid.T, label string) gen.Pt {
	if rapid.IntRange(0, 7).Draw(t, label+"O") == 0 {
		return gen.Pt{P: w.g.E.Infinity(), Class: "O", K: new(big.Int)}
	}
	return gen.SubgroupPoint(t, w.g, label)
}

// mulOracle returns [s]P: double-and-add on |s| with the sign for scalars up to 2*bitlen(r)+64
// bits; longer scalars are first reduced modulo r through the known discrete log of P
// ([s][k]G = [sk mod r]G, sound because the reference validated [r]G = O).
func (w *wg) mulOracle(s *big.Int, P gen.Pt) ref.Pt {
	if s.BitLen() <= 2*w.g.R.BitLen()+64 || P.K == nil {
		return w.g.E.Mul(s, P.P)
	}
	return gen.MulGen(w.g, new(big.Int).Mul(s, P.K))
}

// scalarClasses measures the property's non-triviality rule on s.
func (w *wg) scalarClasses(s *big.Int) (nt bool, cls []string) {
	r := w.g.R
	two := big.NewInt(2)
	if s.Cmp(two) < 0 || s.Cmp(new(big.Int).Sub(r, two)) > 0 {
		nt = true
		cls = append(cls, "s_outside_[2,r-2]")
	}
	if s.Sign() < 0 {
		cls = append(cls, "s<0")
	}
	if s.Sign() == 0 {
		cls = append(cls, "s=0")
	}
	if s.BitLen() > r.BitLen() {
		nt = true
		cls = append(cls, "bitlen(s)>bitlen(r)")
	}
	if s.BitLen() > 64*((r.BitLen()+63)/64) {
		cls = append(cls, "s_wider_than_fr_limbs")
	}
	if new(big.Int).Mod(s, r).Sign() == 0 {
		cls = append(cls, "s=0_mod_r")
	}
	if len(w.lat) > 0 {
		// the library's own decomposition for both candidate eigenvalues (classification only):
		// the label is set only if it holds whichever eigenvalue the library uses
		neg, long := true, true
		for i := range w.lat {
			k := ecc.SplitScalar(s, &w.lat[i])
			n := k[0].Sign() < 0 || k[1].Sign() < 0
			l := false
			for j := 0; j < 2; j++ {
				b := new(big.Int).Add(new(big.Int).Abs(&w.lat[i].V1[j]), new(big.Int).Abs(&w.lat[i].V2[j]))
				b.Rsh(b, 1)
				if new(big.Int).Abs(&k[j]).Cmp(new(big.Int).Sub(b, new(big.Int).Rsh(b, 8))) >= 0 {
					l = true
				}
			}
			neg, long = neg && n, long && l
		}
		if neg {
			nt = true
			cls = append(cls, "glv_subscalar_negative")
		}
		if long {
			nt = true
			if s.BitLen() <= r.BitLen() {
				cls = append(cls, "glv_subscalar_at_bound")
			} else {
				cls = append(cls, "glv_subscalar_overlong")
			}
		}
	}
	return
}

func (w *wg) affIs(t *rapid.T, what string, aff interface{}, want ref.Pt) {
	got := w.g.ToRef(aff)
	if !w.g.E.Eq(got, want) {
		t.Fatalf("%s: %s: got %s want %s", w.g.ID(), what, w.g.E.Str(got), w.g.E.Str(want))
	}
}

func (w *wg) jacIs(t *rapid.T, what string, jac interface{}, want ref.Pt) {
	got := w.g.JacToRef(jac)
	if !w.g.E.Eq(got, want) {
		t.Fatalf("%s: %s: got %s want %s", w.g.ID(), what, w.g.E.Str(got), w.g.E.Str(want))
	}
}

func mand(id string, cls ...string) []string {
	out := make([]string, 0, 2*len(cls))
	for _, c := range cls {
		out = append(out, c, id+"|"+c)
	}
	return out
}

// propMul: [s]P through G*Affine / G*Jac .ScalarMultiplication and the fixed-base variants.
func propMul(t *rapid.T, w *wg) {
	g, E := w.g, w.g.E
	P := w.subPoint(t, "P")
	s, sc := gen.Scalar(t, g.R, maxBits(g.R), w.glv, "s")
	want := w.mulOracle(s, P)
	key := fmt.Sprintf("%s s=%s P=%s", g.ID(), s.Text(16), E.Str(P.P))
	what := fmt.Sprintf("(s=%s [%s], P=%s [%s])", s.Text(16), sc, E.Str(P.P), P.Class)

	pa := g.FromRef(P.P)
	pj, zc := gen.JacRep(t, g, w.s, P.P, "z")
	s0 := new(big.Int).Set(s)

	r := g.FromRef(g.Gen)
	reg.M(r, "ScalarMultiplication", pa, s)
	w.affIs(t, "Affine.ScalarMultiplication"+what, r, want)
	j := g.JacFromRef(g.Gen, ref.Scalar(E.F, big.NewInt(3)))
	reg.M(j, "ScalarMultiplication", pj, s)
	w.jacIs(t, "Jac.ScalarMultiplication[z:"+zc+"]"+what, j, want)

	if w.affBase || w.jacBase {
		wantB := gen.MulGen(g, s)
		if s.BitLen() <= g.R.BitLen()+8 {
			wantB = E.Mul(s, g.Gen) // plain double-and-add on |s| when affordable
		}
		if w.affBase {
			r = g.NewAff()
			reg.M(r, "ScalarMultiplicationBase", s)
			w.affIs(t, "Affine.ScalarMultiplicationBase(s="+s.Text(16)+")", r, wantB)
		}
		if w.jacBase {
			j = g.NewJac()
			reg.M(j, "ScalarMultiplicationBase", s)
			w.jacIs(t, "Jac.ScalarMultiplicationBase(s="+s.Text(16)+")", j, wantB)
		}
	}
	if s.Cmp(s0) != 0 {
		t.Fatalf("%s: the scalar argument was modified", g.ID())
	}
	w.affIs(t, "operand after call", pa, P.P)

	nt, cls := w.scalarClasses(s)
	if P.P.Inf {
		nt = true
		cls = append(cls, "P=O")
	}
	all := mand(g.ID(), cls...)
	all = append(all, "s:"+sc, "P:"+P.Class, "z:"+zc)
	rep.Case("C03_Mul/"+g.ID(), key, nt, all...)
}

// propJoint: [s1]P1 + [s2]P2 through JointScalarMultiplication(Base).
func propJoint(t *rapid.T, w *wg) {
	g, E := w.g, w.g.E
	P1 := w.subPoint(t, "P1")
	var P2 gen.Pt
	switch rapid.IntRange(0, 4).Draw(t, "rel") {
	case 0:
		P2 = gen.Pt{P: P1.P, Class: "=P1", K: P1.K}
	case 1:
		P2 = gen.Pt{P: E.Neg(P1.P), Class: "=-P1", K: new(big.Int).Mod(new(big.Int).Neg(P1.K), g.R)}
	default:
		P2 = w.subPoint(t, "P2")
	}
	mb := maxBits(g.R)
	s1, c1 := gen.Scalar(t, g.R, mb, w.glv, "s1")
	var s2 *big.Int
	var c2 string
	switch rapid.IntRange(0, 5).Draw(t, "srel") {
	case 0:
		s2, c2 = new(big.Int).Set(s1), "=s1"
	case 1:
		s2, c2 = new(big.Int).Neg(s1), "=-s1"
	default:
		s2, c2 = gen.Scalar(t, g.R, mb, w.glv, "s2")
	}
	key := fmt.Sprintf("%s s1=%s s2=%s P1=%s P2=%s", g.ID(), s1.Text(16), s2.Text(16), E.Str(P1.P), E.Str(P2.P))
	what := fmt.Sprintf("(s1=%s [%s], s2=%s [%s], P1=%s, P2=%s)", s1.Text(16), c1, s2.Text(16), c2, E.Str(P1.P), E.Str(P2.P))
	m2 := w.mulOracle(s2, P2)
	a1, a2 := g.FromRef(P1.P), g.FromRef(P2.P)
	if w.joint {
		want := E.Add(w.mulOracle(s1, P1), m2)
		j := g.NewJac()
		if w.jointJacArgs {
			j1, _ := gen.JacRep(t, g, w.s, P1.P, "z1")
			j2, _ := gen.JacRep(t, g, w.s, P2.P, "z2")
			reg.M(j, "JointScalarMultiplication", j1, j2, s1, s2)
		} else {
			reg.M(j, "JointScalarMultiplication", a1, a2, s1, s2)
		}
		w.jacIs(t, "Jac.JointScalarMultiplication"+what, j, want)
	}
	if w.jointBase {
		wantB := E.Add(gen.MulGen(g, s1), m2)
		j := g.NewJac()
		reg.M(j, "JointScalarMultiplicationBase", a2, s1, s2)
		w.jacIs(t, "Jac.JointScalarMultiplicationBase"+what, j, wantB)
	}
	nt1, cl1 := w.scalarClasses(s1)
	nt2, cl2 := w.scalarClasses(s2)
	cls := append(cl1, cl2...)
	nt := nt1 || nt2
	if P1.P.Inf || P2.P.Inf {
		nt = true
		cls = append(cls, "P=O")
	}
	all := mand(g.ID(), cls...)
	all = append(all, "s1:"+c1, "s2:"+c2, "P2:"+P2.Class)
	rep.Case("C03_Joint/"+g.ID(), key, nt, all...)
}

// batchScalar draws a reduced scalar for the batch entry point: the fr boundary lattice plus
// constant c-bit digit patterns that drive the signed-digit recoding into its carry chains.
func (w *wg) batchScalar(t *rapid.T, label string) (*big.Int, string) {
	r := w.g.R
	switch rapid.IntRange(0, 5).Draw(t, label+"bm") {
	case 0, 1:
		v, c := w.fr.Elem(t, label)
		return v, "fr:" + c
	case 2, 3:
		c := rapid.IntRange(2, 16).Draw(t, label+"c")
		var d int64
		switch rapid.IntRange(0, 4).Draw(t, label+"d") {
		case 0:
			d = 1<<(c-1) - 1
		case 1:
			d = 1 << (c - 1)
		case 2:
			d = 1<<(c-1) + 1
		case 3:
			d = 1<<c - 1
		default:
			d = int64(rapid.IntRange(0, 1<<c-1).Draw(t, label+"dv"))
		}
		v := new(big.Int)
		for i := 0; i*c < r.BitLen()+c; i++ {
			v.Lsh(v, uint(c))
			v.Or(v, big.NewInt(d))
		}
		if rapid.Bool().Draw(t, label+"trunc") {
			v.And(v, new(big.Int).Sub(new(big.Int).Lsh(big.NewInt(1), uint(r.BitLen()-1)), big.NewInt(1)))
		}
		return v.Mod(v, r), fmt.Sprintf("digits_c%d", c)
	default:
		v, c := gen.Int(t, r, r.BitLen(), label)
		return v.Mod(v, r), "int:" + c
	}
}

// propBatch: BatchScalarMultiplicationG1/G2(base, scalars) = ([s_i]base)_i.
func propBatch(t *rapid.T, w *wg) {
	g, E := w.g, w.g.E
	P := w.subPoint(t, "P")
	var n int
	hi := rep.Scale(64, 1024)
	switch rapid.IntRange(0, 9).Draw(t, "nm") {
	case 0:
		n = 0
	case 1:
		n = 1
	case 2:
		n = rapid.SampledFrom([]int{2, 3, 15, 16, 17, 31, 32, 33, 63, 64}).Draw(t, "nb")
	case 3:
		n = hi
		if rep.Thorough() && rapid.IntRange(0, 3).Draw(t, "big") == 0 {
			n = rapid.SampledFrom([]int{2048, 3584, 3585, 4096}).Draw(t, "nbig")
		}
	default:
		n = rapid.IntRange(2, hi).Draw(t, "n")
	}
	vals := make([]*big.Int, n)
	ptrs := make([]interface{}, n)
	clsSet := map[string]bool{}
	var rep1 *big.Int
	if n > 0 && rapid.IntRange(0, 4).Draw(t, "allsame") == 0 {
		rep1, _ = w.batchScalar(t, "srep")
	}
	for i := range vals {
		var c string
		if rep1 != nil {
			vals[i], c = rep1, "repeated"
		} else {
			vals[i], c = w.batchScalar(t, fmt.Sprintf("s%d", i))
		}
		clsSet["bs:"+c] = true
		e := reflect.New(w.frElem).Interface()
		reg.Unflatten(e, []*big.Int{vals[i]})
		ptrs[i] = e
	}
	in := reg.SliceOf(w.frElem, ptrs...)
	pa := g.FromRef(P.P)
	out := g.C.Pkg.F(w.batch, pa, in)[0]
	if reg.Len(out) != n {
		t.Fatalf("%s: %s returned %d points for %d scalars", g.ID(), w.batch, reg.Len(out), n)
	}
	// every output for n <= 64; a drawn sample plus both ends for larger batches
	idx := make([]int, 0, 70)
	if n <= 64 {
		for i := 0; i < n; i++ {
			idx = append(idx, i)
		}
	} else {
		idx = append(idx, 0, 1, n-2, n-1)
		for k := 0; k < 28; k++ {
			idx = append(idx, rapid.IntRange(0, n-1).Draw(t, "idx"))
		}
	}
	for _, i := range idx {
		want := gen.MulGen(g, new(big.Int).Mul(vals[i], P.K))
		if i%8 == 0 { // plain double-and-add on a part of the outputs
			want = E.Mul(vals[i], P.P)
		}
		w.affIs(t, fmt.Sprintf("%s(base=%s, n=%d)[%d] scalar=%s", w.batch, E.Str(P.P), n, i, vals[i].Text(16)), reg.Index(out, i), want)
	}
	w.affIs(t, "base after call", pa, P.P)
	// the degenerate lengths, every time (cheap): empty batch and a batch of one
	out0 := g.C.Pkg.F(w.batch, pa, reg.SliceOf(w.frElem))[0]
	if reg.Len(out0) != 0 {
		t.Fatalf("%s: %s on an empty batch returned %d points", g.ID(), w.batch, reg.Len(out0))
	}
	rep.Case("C03_Batch/"+g.ID(), fmt.Sprintf("%s batch n=0 P=%s", g.ID(), E.Str(P.P)), true, mand(g.ID(), "batch_len=0")...)
	s1, s1c := w.batchScalar(t, "single")
	e1 := reflect.New(w.frElem).Interface()
	reg.Unflatten(e1, []*big.Int{s1})
	out1 := g.C.Pkg.F(w.batch, pa, reg.SliceOf(w.frElem, e1))[0]
	if reg.Len(out1) != 1 {
		t.Fatalf("%s: %s on a batch of one returned %d points", g.ID(), w.batch, reg.Len(out1))
	}
	w.affIs(t, fmt.Sprintf("%s(base=%s, n=1) scalar=%s", w.batch, E.Str(P.P), s1.Text(16)), reg.Index(out1, 0), E.Mul(s1, P.P))
	rep.Case("C03_Batch/"+g.ID(), fmt.Sprintf("%s batch n=1 P=%s s=%s", g.ID(), E.Str(P.P), s1.Text(16)), true, append(mand(g.ID(), "batch_len=1"), "bs:"+s1c)...)
	var cls []string
	nt := false
	if n <= 1 {
		nt = true
		cls = append(cls, fmt.Sprintf("batch_len=%d", n))
	}
	if P.P.Inf {
		nt = true
		cls = append(cls, "P=O")
	}
	for _, v := range vals {
		if v.Cmp(big.NewInt(2)) < 0 || v.Cmp(new(big.Int).Sub(g.R, big.NewInt(2))) > 0 {
			nt = true
			cls = append(cls, "s_outside_[2,r-2]")
			break
		}
	}
	all := mand(g.ID(), cls...)
	for c := range clsSet {
		all = append(all, c)
	}
	switch {
	case n <= 1:
	case n <= 16:
		all = append(all, "batch_len_2..16")
	case n <= 64:
		all = append(all, "batch_len_17..64")
	default:
		all = append(all, "batch_len>64")
	}
	key := fmt.Sprintf("%s batch n=%d P=%s", g.ID(), n, E.Str(P.P))
	for i := 0; i < n && i < 4; i++ {
		key += " " + vals[i].Text(16)
	}
	rep.Case("C03_Batch/"+g.ID(), key, nt, all...)
}

func TestC03_Mul(t *testing.T) {
	forGroups(t, func(t *testing.T, w *wg) {
		rapid.Check(t, func(t *rapid.T) { propMul(t, w) })
	})
}

func TestC03_Joint(t *testing.T) {
	forGroups(t, func(t *testing.T, w *wg) {
		if !w.joint && !w.jointBase {
			t.Skip("no JointScalarMultiplication on " + w.g.ID())
		}
		rapid.Check(t, func(t *rapid.T) { propJoint(t, w) })
	})
}

func TestC03_Batch(t *testing.T) {
	forGroups(t, func(t *testing.T, w *wg) {
		if w.batch == "" {
			t.Skip("no BatchScalarMultiplication on " + w.g.ID())
		}
		rapid.Check(t, func(t *rapid.T) { propBatch(t, w) })
	})
}
