#!/usr/bin/env python3
"""Prints the findings table of DESIGN.md section 14 from known_findings.json and fixes/ORDER.tsv."""
import json, os, re
here = os.path.dirname(os.path.abspath(__file__))
title = {}
for l in open(os.path.join(here, "ORDER.tsv")):
    f = l.rstrip("\n").split("\t")
    if len(f) >= 4:
        title[f[2]] = f[3]
rows = {}
for e in json.load(open(os.path.join(here, "..", "known_findings.json")))["findings"]:
    k = e["key"]
    r = rows.setdefault(k, dict(props=[], status=e["status"], commit=e.get("commit", ""), what=""))
    if e["property"] not in r["props"]:
        r["props"].append(e["property"])
    if e["status"] == "fixed":
        r["what"] = title.get(k) or re.sub(r"^fixed: property=\S+ \S+ ", "", e["what"])
    else:
        r["what"] = e["what"]
def nat(k):
    m = re.match(r"F(\d+)([a-z]?)", k)
    return (int(m.group(1)), m.group(2))
print("| # | property | key | status | fix commit | what |")
print("|---|---|---|---|---|---|")
for k in sorted(rows, key=nat):
    r = rows[k]
    print("| %s | %s | `%s` | %s | %s | %s |" % (k.split("-")[0], ", ".join(sorted(r["props"])), k, r["status"], r["commit"], r["what"].replace("|", "\\|")))
